"""
core.py -- driver machinery for solver-based checks of pippijn/aldor (DESIGN.md section 1).

One *query* = one CBMC run: a harness entry point linked with GOTO builds of the
real translation units (snapshotted from /repo's working tree on every run),
decided by a SAT/SMT back end.  Verdicts per CBMC property:

  WITNESS ...          must be FAILURE   (reachability guard; otherwise the harness is vacuous)
  unwinding assertion  must be SUCCESS   (otherwise the stated loop bound does not cover the code:
                                          inconclusive, or a violation where termination is the property)
  anything else        must be SUCCESS   (otherwise: known finding, or violation after native replay)
"""
import concurrent.futures
import fnmatch
import glob
import hashlib
import json
import os
import re
import resource
import shutil
import signal
import subprocess
import sys
import tempfile
import threading
import time
from dataclasses import dataclass, field

VERIF = os.path.dirname(os.path.dirname(os.path.abspath(__file__)))
REPO = os.environ.get("VERIF_REPO", "/repo")
REPO_SRC = os.path.join(REPO, "aldor/aldor/src")
HARNESS = os.path.join(VERIF, "harness")
KNOWN_FILE = os.path.join(VERIF, "known_findings.txt")
NCPU = os.cpu_count() or 4

GOTO_CC_BASE = ["goto-cc", "-std=c99", "-DV_CBMC"]
GCC_BASE = ["gcc", "-std=gnu99", "-g", "-O0", "-w"]
# signed overflow / left shift of negative values have two's-complement semantics in the encoding (DESIGN.md 1.2), so the
# native replay does not trap on them either; out-of-range shift distances, bounds, null, alignment etc. still trap
SAN = ["-fsanitize=address,undefined", "-fno-sanitize=shift-base,signed-integer-overflow", "-fno-sanitize-recover=undefined",
       "-fno-omit-frame-pointer"]


def log(*a):
    print(*a, flush=True)


# --------------------------------------------------------------------------------------
@dataclass
class Query:
    name: str                      # unique within the property
    harness: str                   # file name under /verif/harness, or absolute path (generated)
    entry: str                     # harness entry function (V_ENTRY name)
    srcs: list = field(default_factory=list)        # real TUs (names relative to the src snapshot)
    defs: list = field(default_factory=list)        # -D... for harness, stubs and real TUs
    stubs: list = field(default_factory=lambda: ["stubs.c"])  # stub TUs under /verif/harness
    extra: list = field(default_factory=list)       # further C files (absolute paths, e.g. emitted C)
    includes: list = field(default_factory=list)    # extra -I
    unwind: int = 8
    unwindset: list = field(default_factory=list)
    flags: list = field(default_factory=list)       # extra cbmc flags
    solver: str = ""               # "", cadical, kissat, z3, cvc5, cvc5-int
    timeout: int = 120
    mem_gb: int = 6
    weight: int = 1                # how many of the 16 slots this query occupies
    remove_bodies: list = field(default_factory=list)
    object_bits: int = 0
    unwind_fail_is_violation: bool = False
    standard_checks: bool = True   # CBMC 6 default checks (bounds, pointer, overflow, shift, div0)
    sanitize_replay: bool = True
    bound: str = ""                # human-readable statement of the bound of this query
    group: str = ""                # for evidence: which clause of the property this decides
    tiers: tuple = ("quick", "thorough")
    out_of_scope: list = field(default_factory=list)   # (function, substring of description, reason): solver-built-in checks not part of the
                                                        # property (standard-level UB that does not reproduce natively); listed in the evidence


@dataclass
class QResult:
    q: Query
    status: str = "?"              # ok | violation | known | inconclusive | broken
    detail: str = ""
    wall: float = 0.0
    solver_s: float = 0.0
    rss_mb: float = 0.0
    n_props: int = 0
    n_ok: int = 0
    witness: bool = False
    failures: list = field(default_factory=list)   # dicts: prop, desc, func, file, line, kind, replay...
    functions: set = field(default_factory=set)
    vcc: int = 0
    excluded: list = field(default_factory=list)


# --------------------------------------------------------------------------------------
class Ctx:
    def __init__(self, pid, tier, seed, jobs=None, keep=False):
        self.pid = pid
        self.tier = tier
        self.seed = seed
        self.jobs = jobs or NCPU
        self.keep = keep
        self.scratch = tempfile.mkdtemp(prefix="verif.%s." % pid, dir="/var/tmp")
        self.src = os.path.join(self.scratch, "src")
        self.lock = threading.Lock()
        self._gb_cache = {}
        self._gb_locks = {}
        self._obj_cache = {}
        self.t0 = time.time()
        self.notes = []
        self.snapshot()

    # ---- source snapshot -------------------------------------------------------------
    def snapshot(self):
        os.makedirs(self.src)
        n = 0
        for pat in ("*.c", "*.h", "*.h0", "*.msg", "*.z", "*.y"):
            for f in glob.glob(os.path.join(REPO_SRC, pat)):
                shutil.copy2(f, self.src)
                n += 1
        os.makedirs(os.path.join(self.src, "java"))
        for pat in ("*.c", "*.h"):
            for f in glob.glob(os.path.join(REPO_SRC, "java", pat)):
                shutil.copy2(f, os.path.join(self.src, "java"))
                n += 1
        self.n_snap = n

    def ctype_tables(self):
        """dump glibc's C-locale ctype tables into <scratch>/inc/v_ctype_tables.h (once per run)"""
        with self.lock:
            inc = os.path.join(self.scratch, "inc")
            out = os.path.join(inc, "v_ctype_tables.h")
            if not os.path.exists(out):
                os.makedirs(inc, exist_ok=True)
                exe = os.path.join(inc, "gen_ctype")
                subprocess.run(["gcc", "-O0", os.path.join(HARNESS, "gen_ctype_tables.c"), "-o", exe], check=True)
                txt = subprocess.run([exe], capture_output=True, text=True, check=True, env=dict(os.environ, LC_ALL="C")).stdout
                open(out, "w").write(txt)
            return inc

    def build_aldor(self):
        """Rebuild the compiler binary from /repo's current sources in the scratch directory (makefile skeleton + src,
        object files and mtimes kept, so only edited units are recompiled).  Returns a command prefix that runs it."""
        with self.lock:
            if getattr(self, "_aldor", None):
                return self._aldor
            top = os.path.join(REPO, "aldor")
            bld = os.path.join(self.scratch, "build")
            inc = ["--include=*/", "--include=Makefile*", "--include=*.am", "--include=*.in", "--include=*.m4", "--include=*.mk",
                   "--include=config.status", "--include=configure*", "--include=libtool", "--include=amaux/***",
                   "--include=aldor/tools/unix/***",       # zacc / msgcat / atinlay: needed when axl.z or comsgdb.msg is newer than its output
                   "--exclude=*"]
            subprocess.run(["rsync", "-a"] + inc + [top + "/", bld + "/"], check=True)
            subprocess.run(["rsync", "-a", "--exclude=test/", "--exclude=*.i", "--exclude=*.s",
                            os.path.join(top, "aldor/src") + "/", os.path.join(bld, "aldor/src") + "/"], check=True)
            srcdir = os.path.join(bld, "aldor/src")
            p = subprocess.run(["make", "-j%d" % NCPU, "aldor"], cwd=srcdir, capture_output=True, text=True)
            if p.returncode != 0:
                raise BuildError("scratch build of the aldor binary failed:\n" + (p.stdout + p.stderr)[-3000:])
            lib = os.path.join(top, "aldor/lib/libfoamlib/al")
            self._aldor = [os.path.join(srcdir, "aldor"), "-Nfile=" + os.path.join(srcdir, "aldor.conf"), "-I" + lib, "-Y" + lib]
            return self._aldor

    def patch_src(self, name, old, new, why):
        """Encoding work-around applied to the SNAPSHOT copy only (never to /repo); recorded in evidence."""
        pth = os.path.join(self.src, name)
        txt = open(pth, errors="replace").read()
        if old not in txt:
            raise BuildError("snapshot patch for %s no longer applies (%s)" % (name, why))
        open(pth, "w").write(txt.replace(old, new))
        self.notes.append("snapshot patch %s: %s" % (name, why))

    def src_hash(self, names):
        out = {}
        for n in names:
            p = os.path.join(self.src, n)
            if os.path.exists(p):
                out[n] = hashlib.sha256(open(p, "rb").read()).hexdigest()[:16]
        return out

    def read_src(self, name):
        return open(os.path.join(self.src, name), errors="replace").read()

    def cleanup(self):
        if not self.keep:
            shutil.rmtree(self.scratch, ignore_errors=True)
        else:
            log("scratch kept:", self.scratch)

    # ---- goto-cc ----------------------------------------------------------------------
    def gotocc(self, cfile, defs, includes=()):
        key = (cfile, tuple(defs), tuple(includes))
        with self.lock:
            lk = self._gb_locks.setdefault(key, threading.Lock())
        with lk:
            if key in self._gb_cache:
                return self._gb_cache[key]
            h = hashlib.sha1(repr(key).encode()).hexdigest()[:12]
            out = os.path.join(self.scratch, "gb", "%s.%s.gb" % (os.path.basename(cfile), h))
            os.makedirs(os.path.dirname(out), exist_ok=True)
            cmd = GOTO_CC_BASE + ["-I" + self.src, "-I" + HARNESS] + ["-I" + i for i in includes] \
                + list(defs) + ["-c", cfile, "-o", out]
            p = subprocess.run(cmd, capture_output=True, text=True, cwd=self.scratch)
            if p.returncode != 0:
                raise BuildError("goto-cc failed for %s:\n%s" % (cfile, (p.stderr or p.stdout)[-3000:]))
            self._gb_cache[key] = out
            return out

    def resolve_harness(self, h):
        return h if os.path.isabs(h) else os.path.join(HARNESS, h)

    def resolve_src(self, s):
        return s if os.path.isabs(s) else os.path.join(self.src, s)


class BuildError(Exception):
    pass


# --------------------------------------------------------------------------------------
def load_known(pid):
    known, fixed = [], []
    if not os.path.exists(KNOWN_FILE):
        return known, fixed
    for ln in open(KNOWN_FILE):
        ln = ln.strip()
        if not ln or ln.startswith("#"):
            continue
        if ln.startswith("fixed:"):
            fixed.append(ln)
            continue
        if not ln.startswith("known:"):
            continue
        head, _, what = ln[len("known:"):].partition("::")
        d = {}
        for m in re.finditer(r'(\w+)=("([^"]*)"|\S+)', head):
            d[m.group(1)] = m.group(3) if m.group(3) is not None else m.group(2)
        d["what"] = what.strip()
        d["line"] = ln
        if d.get("property") == pid:
            known.append(d)
    return known, fixed


def match_known(known, qname, f):
    for k in known:
        if not fnmatch.fnmatch(qname, k.get("query", "*")):
            continue
        if "func" in k and k["func"] != f.get("func"):
            continue
        if "desc" in k and k["desc"] not in f.get("desc", ""):
            continue
        return k
    return None


# --------------------------------------------------------------------------------------
def _limits(mem_gb):
    def f():
        os.setsid()
        try:        # die with the driver: no orphaned solver processes when the check itself is killed
            import ctypes
            ctypes.CDLL("libc.so.6").prctl(1, signal.SIGKILL)
        except Exception:
            pass
        b = int(mem_gb * (1 << 30))
        resource.setrlimit(resource.RLIMIT_AS, (b, b))
    return f


def run_cmd(cmd, timeout, mem_gb, cwd, stdout_path):
    """Run cmd, stdout to file; returns (rc|None on timeout, wall, maxrss_mb, stderr)."""
    t0 = time.time()
    with open(stdout_path, "wb") as so:
        p = subprocess.Popen(cmd, stdout=so, stderr=subprocess.PIPE, cwd=cwd, preexec_fn=_limits(mem_gb))
        timed_out = False
        try:
            _, err = p.communicate(timeout=timeout)
        except subprocess.TimeoutExpired:
            timed_out = True
            try:
                os.killpg(p.pid, signal.SIGKILL)
            except ProcessLookupError:
                pass
            _, err = p.communicate()
    wall = time.time() - t0
    return (None if timed_out else p.returncode), wall, (err or b"").decode(errors="replace")


SOLVER_FLAGS = {
    "": [],
    "minisat": [],
    "cadical": ["--sat-solver", "cadical"],
    "kissat": ["--external-sat-solver", "kissat"],
    "z3": ["--z3"],
    "cvc5": ["--cvc5"],
    "bitwuzla": ["--bitwuzla"],
}


def build_goto(ctx, q, qdir):
    defs = list(q.defs)
    parts = [ctx.gotocc(ctx.resolve_harness(q.harness), defs, q.includes)]
    for s in q.stubs:
        parts.append(ctx.gotocc(os.path.join(HARNESS, s), defs, q.includes))
    for s in q.srcs:
        parts.append(ctx.gotocc(ctx.resolve_src(s), defs, q.includes))
    for s in q.extra:
        parts.append(ctx.gotocc(s, defs, q.includes))
    out = os.path.join(qdir, "all.gb")
    p = subprocess.run(["goto-cc"] + parts + ["-o", out], capture_output=True, text=True)
    if p.returncode != 0:
        raise BuildError("goto-cc link failed for %s:\n%s" % (q.name, (p.stderr or p.stdout)[-3000:]))
    if q.remove_bodies:
        out2 = os.path.join(qdir, "all2.gb")
        cmd = ["goto-instrument"]
        for f in q.remove_bodies:
            cmd += ["--remove-function-body", f]
        p = subprocess.run(cmd + [out, out2], capture_output=True, text=True)
        if p.returncode != 0:
            raise BuildError("goto-instrument failed for %s:\n%s" % (q.name, (p.stderr or p.stdout)[-2000:]))
        out = out2
    return out


def cbmc_cmd(q, gb):
    cmd = ["cbmc", gb, "--function", q.entry, "--unwind", str(q.unwind), "--unwinding-assertions",
           "--drop-unused-functions", "--json-ui", "--trace", "--slice-formula", "--verbosity", "8"]
    for u in q.unwindset:
        cmd += ["--unwindset", u]
    if q.object_bits:
        cmd += ["--object-bits", str(q.object_bits)]
    if not q.standard_checks:
        cmd += ["--no-standard-checks"]
    else:
        # signed overflow gets two's-complement semantics (what gcc -O0, the project's build, does);
        # it is not a reportable event by itself -- the functional assertions decide whether a result is wrong
        cmd += ["--no-signed-overflow-check"]
    cmd += SOLVER_FLAGS[q.solver]
    cmd += q.flags
    return cmd


BENIGN = re.compile(r"^(shift operand is negative|arithmetic overflow on signed )")


def classify_desc(desc):
    if BENIGN.match(desc):
        return "benign"
    if desc.startswith("WITNESS"):
        return "witness"
    if desc.startswith("unwinding assertion") or "recursion unwinding assertion" in desc:
        return "unwind"
    if desc.startswith("PROP"):
        return "prop"
    return "builtin"


def run_query(ctx, q, known):
    r = run_query1(ctx, q, known, [])
    if r.status == "inconclusive" and getattr(r, "benign_shift_failed", False) and "no verdict" in r.detail:
        # CBMC stops deciding the properties that follow a failed undefined-shift assertion (status UNKNOWN).  A left
        # shift of a negative value is not a reportable event here (two's complement, DESIGN.md 1.2), so the query is
        # decided again without that instrumentation; out-of-range shift distances are then caught by the functional
        # assertions and the native replay instead.
        r2 = run_query1(ctx, q, known, ["--no-undefined-shift-check"])
        r2.wall += r.wall
        r2.solver_s += r.solver_s
        return r2
    return r


def run_query1(ctx, q, known, extra_flags):
    r = QResult(q=q)
    qdir = os.path.join(ctx.scratch, "q", re.sub(r"[^\w.-]", "_", q.name))
    os.makedirs(qdir, exist_ok=True)
    t0 = time.time()
    try:
        gb = build_goto(ctx, q, qdir)
    except BuildError as e:
        r.status, r.detail = "broken", str(e)
        r.wall = time.time() - t0
        return r
    out = os.path.join(qdir, "cbmc.json")
    cmd = cbmc_cmd(q, gb) + extra_flags
    rc, wall, err = run_cmd(cmd, q.timeout, q.mem_gb, qdir, out)
    r.wall = time.time() - t0
    if rc is None:
        r.status, r.detail = "inconclusive", "timeout after %ds" % q.timeout
        return r
    try:
        data = json.load(open(out))
    except Exception as e:
        r.status = "inconclusive"
        r.detail = "no parsable CBMC output (rc=%s, likely memory limit %dGB): %s %s" % (rc, q.mem_gb, e, err[-300:])
        return r
    results = None
    msgs = []
    for it in data:
        if isinstance(it, dict):
            if "result" in it:
                results = it["result"]
            elif "messageText" in it:
                msgs.append(it)
                m = re.search(r"Runtime decision procedure: ([0-9.e+-]+)s", it["messageText"])
                if m:
                    r.solver_s += float(m.group(1))
                m = re.search(r"Generated (\d+) VCC\(s\), (\d+) remaining", it["messageText"])
                if m:
                    r.vcc = int(m.group(2))
    if results is None:
        errs = [m["messageText"] for m in msgs if m.get("messageType") == "ERROR"]
        r.status = "inconclusive"
        r.detail = "CBMC produced no result (rc=%s): %s %s" % (rc, " | ".join(errs)[-600:], err[-300:])
        return r
    unwind_fail = []
    n_noverdict = 0
    for pr in results:
        desc = pr.get("description", "")
        kind = classify_desc(desc)
        sl = pr.get("sourceLocation", {}) or {}
        fn = sl.get("function", "")
        fl = os.path.basename(sl.get("file", ""))
        if kind == "witness":
            if pr["status"] == "FAILURE":
                r.witness = True
            continue
        if desc.startswith("no body for callee") and desc.split()[-1] in q.remove_bodies:
            continue              # body removed on purpose (listed in assumptions)
        if kind == "benign" and pr["status"] == "FAILURE" and desc.startswith("shift operand"):
            r.benign_shift_failed = True
        if kind == "benign":      # left shift of a negative value: two's-complement semantics, see DESIGN.md 1.2
            continue
        if kind == "builtin":
            oos = [o for o in q.out_of_scope if o[0] == fn and o[1] in desc]
            if oos:
                if pr["status"] != "SUCCESS":
                    r.excluded.append("%s: %s [%s] -- %s" % (fn, desc, pr["status"], oos[0][2]))
                continue
        r.n_props += 1
        if fl and fn and not fl.startswith("<"):
            r.functions.add("%s:%s" % (fl, fn))
        if pr["status"] == "SUCCESS":
            r.n_ok += 1
            continue
        if pr["status"] != "FAILURE":          # ERROR / UNKNOWN: the solver gave no verdict
            n_noverdict += 1
            continue
        f = dict(prop=pr.get("property"), desc=desc, func=fn, file=fl, line=sl.get("line"), kind=kind,
                 status=pr["status"], trace=pr.get("trace"))
        if kind == "unwind":
            unwind_fail.append(f)
            if not q.unwind_fail_is_violation:
                continue
        r.failures.append(f)
    if unwind_fail and not q.unwind_fail_is_violation:
        r.status = "inconclusive"
        r.detail = "unwinding assertion failed (bound %d too small for: %s)" % (
            q.unwind, ", ".join("%s %s" % (f["func"], f["desc"]) for f in unwind_fail[:4]))
        # real failures found below the bound are still reported
    if n_noverdict:
        errs = [m["messageText"] for m in msgs if m.get("messageType") == "ERROR"]
        r.status = "inconclusive"
        r.detail = "solver gave no verdict for %d properties (mem limit %dGB): %s" % (n_noverdict, q.mem_gb, " ".join(errs)[:200])
        r.failures = [f for f in r.failures]
        if not r.failures:
            return r
    if not r.witness and not r.failures and not unwind_fail:
        r.status = "broken"
        r.detail = "vacuous: WITNESS assertion not reported violated (harness end unreachable)"
        return r
    if r.failures:
        viol = []
        for f in r.failures:
            k = match_known(known, q.name, f)
            if k:
                f["known"] = k
            else:
                viol.append(f)
        if viol:
            r.status = "violation"
            # replay each distinct failing property (cap to keep output readable)
            for f in viol[:6]:
                replay(ctx, q, f, qdir)
        elif r.status != "inconclusive":
            r.status = "known"
    elif r.status == "?":
        r.status = "ok"
    for f in r.failures:
        f.pop("trace", None)
    return r


# --------------------------------------------------------------------------------------
def extract_inputs(trace, entry):
    """Assignments to IN.<path> made in the entry wrapper -> list of (path, c_literal)."""
    vals = {}

    def lit(v):
        nm = v.get("name")
        if nm in ("integer", "float", "pointer", "boolean") or "binary" in v:
            b = v.get("binary")
            ty = v.get("type", "")
            if b is not None and set(b) <= set("01") and len(b) <= 64:
                n = int(b, 2)
                return "0x%x%s" % (n, "UL" if len(b) > 32 else "U")
            return str(v.get("data", "0")).rstrip("ulUL") or "0"
        return None

    def walk(path, v):
        nm = v.get("name")
        if nm == "struct":
            for m in v.get("members", []):
                walk(path + "." + m["name"], m["value"])
        elif nm == "array":
            for e in v.get("elements", []):
                walk(path + "[%s]" % e["index"], e["value"])
        elif nm == "union":
            pass
        else:
            l = lit(v)
            if l is not None:
                vals[path] = l

    for st in trace or []:
        if st.get("stepType") != "assignment":
            continue
        lhs = st.get("lhs", "")
        if not (lhs == "IN" or lhs.startswith("IN.") or lhs.startswith("IN[")):
            continue
        if (st.get("sourceLocation") or {}).get("function") != entry:
            continue
        if st.get("hidden") and lhs == "IN":
            continue
        path = re.sub(r"\[(\d+)[a-zA-Z]*\]", r"[\1]", lhs[2:])
        walk(path, st.get("value", {}))
    return vals


def entries_in(harness_text):
    return re.findall(r"^V_ENTRY\(\s*(\w+)", harness_text, re.M)


def replay(ctx, q, f, qdir):
    """Re-run the counterexample natively against a gcc build of the same sources."""
    vals = extract_inputs(f.get("trace"), q.entry)
    hpath = ctx.resolve_harness(q.harness)
    htxt = open(hpath).read()
    rdir = os.path.join(VERIF, "replays", ctx.pid)
    os.makedirs(rdir, exist_ok=True)
    tag = re.sub(r"[^\w.-]", "_", "%s.%s" % (q.name, f["prop"]))[:120]
    if hpath.startswith(ctx.scratch):
        # generated harness (and generated files it includes): keep copies next to the replay so that it stays buildable
        def keep(path):
            dst = os.path.join(rdir, tag + "." + os.path.basename(path))
            txt = open(path, errors="replace").read()
            for inc_ in re.findall(r'#include "(%s[^"]*)"' % re.escape(ctx.scratch), txt):
                txt = txt.replace('"%s"' % inc_, '"%s"' % keep(inc_))
            open(dst, "w").write(txt)
            return dst
        hpath = keep(hpath)
        htxt = open(hpath).read()
    rfile = os.path.join(rdir, tag + ".c")
    srcs = [ctx.resolve_src(s) for s in q.srcs] + list(q.extra) + [os.path.join(HARNESS, s) for s in q.stubs]
    defs = [d for d in q.defs]
    # functions whose bodies were removed for the solver are empty natively too: the replay uses a copy of the unit in
    # which the DEFINITION line (name at column 0, the code base's style) is renamed, calls keep their name
    rm_defs = []
    if q.remove_bodies:
        nsrcs = []
        for sp in srcs:
            try:
                txt = open(sp, errors="replace").read()
            except OSError:
                nsrcs.append(sp)
                continue
            new = txt
            for f_ in q.remove_bodies:
                new = re.sub(r"(?m)^%s\(" % re.escape(f_), "%s__removed_for_replay(" % f_, new)
            if new != txt:
                cp = os.path.join(qdir, "replay_" + os.path.basename(sp))
                open(cp, "w").write(new)
                nsrcs.append(cp)
            else:
                nsrcs.append(sp)
        srcs = nsrcs
    lines = []
    lines.append("/* replay of a CBMC counterexample -- generated by /verif/vlib/core.py")
    lines.append(" * property   : %s" % ctx.pid)
    lines.append(" * query      : %s  (entry %s, harness %s)" % (q.name, q.entry, q.harness))
    lines.append(" * failing    : [%s] %s  in %s:%s line %s" % (f["prop"], f["desc"].replace("*/", "* /").replace("/*", "/ *"), f["file"], f["func"], f["line"]))
    lines.append(" * bound      : %s" % q.bound)
    lines.append(" * build      : gcc -std=gnu99 -g -O0 %s -I%s -I%s %s <this file> %s" % (
        " ".join(SAN) if q.sanitize_replay else "", REPO_SRC, HARNESS, " ".join(defs),
        " ".join(os.path.join(REPO_SRC, os.path.basename(s)) if s.startswith(ctx.src) else s for s in srcs)))
    lines.append(" * expected   : prints REPLAY-FAIL / sanitizer report / abort  => violation reproduced")
    lines.append(" */")
    lines.append('#include "%s"' % hpath)
    lines.append("int main(void) {")
    for path, l in sorted(vals.items()):
        lines.append("\tREPLAY_in_%s%s = %s;" % (q.entry, path, l))
    lines.append("\t%s();" % q.entry)
    lines.append("\treturn 0;")
    lines.append("}")
    open(rfile, "w").write("\n".join(lines) + "\n")
    f["replay"] = rfile
    f["inputs"] = vals
    exe = os.path.join(qdir, tag + ".exe")
    cmd = GCC_BASE + (SAN if q.sanitize_replay else []) + ["-I" + ctx.src, "-I" + HARNESS] \
        + ["-I" + i for i in q.includes] + defs + rm_defs + [rfile] + srcs + ["-o", exe, "-lm"]
    rmfile = None
    if q.remove_bodies:
        rmfile = os.path.join(qdir, tag + ".removed.c")
        with open(rmfile, "w") as fh:
            for f_ in q.remove_bodies:
                fh.write("#undef %s\nvoid %s(void) {}\n" % (f_, f_))
        obj = rmfile[:-2] + ".o"
        subprocess.run(["gcc", "-c", "-w", rmfile, "-o", obj], capture_output=True)
        cmd.append(obj)
    p = subprocess.run(cmd, capture_output=True, text=True)
    if p.returncode != 0:
        # functions the solver treated as unmodelled externals: give them trapping bodies and relink
        und = sorted(set(re.findall(r"undefined reference to `(\w+)'", p.stderr or "")))
        if und:
            ufile = os.path.join(qdir, tag + ".undef.c")
            with open(ufile, "w") as fh:
                fh.write("#include <stdio.h>\n#include <stdlib.h>\n")
                for u in und:
                    fh.write('void %s(void) { fprintf(stderr, "REPLAY: unmodelled external %s called\\n"); exit(5); }\n' % (u, u))
            p = subprocess.run(cmd + [ufile], capture_output=True, text=True)
    if p.returncode != 0:
        f["replay_result"] = "replay-build-failed"
        f["replay_log"] = (p.stderr or "")[-1500:]
        return
    try:
        env = dict(os.environ, ASAN_OPTIONS="detect_leaks=0:abort_on_error=0", UBSAN_OPTIONS="print_stacktrace=1")
        p = subprocess.run([exe], capture_output=True, text=True, timeout=60, env=env, errors="replace")
        out, err, rc = p.stdout, p.stderr, p.returncode
    except subprocess.TimeoutExpired:
        out, err, rc = "", "timeout", None
    f["replay_log"] = (out[-600:] + "\n" + err[-1200:]).strip()
    if rc is None:
        f["replay_result"] = "reproduced-hang" if f["kind"] == "unwind" else "replay-timeout"
    elif "REPLAY-ASSUME-FALSE" in out:
        f["replay_result"] = "assume-false"
    elif "REPLAY-FAIL:" in out:
        f["replay_result"] = "reproduced"
    elif "AddressSanitizer" in err or "runtime error:" in err or rc < 0 or rc in (134, 139):
        f["replay_result"] = "reproduced-fault"
    elif "REPLAY-END-REACHED" in out or "REPLAY-PATH-ENDED" in out:
        f["replay_result"] = "not-reproduced"
    else:
        f["replay_result"] = "not-reproduced(rc=%s)" % rc


# --------------------------------------------------------------------------------------
class Slots:
    """cpu slots and a memory budget (GB) shared by the concurrent solver processes"""
    def __init__(self, n, mem):
        self.n, self.mem = n, mem
        self.free, self.mfree = n, mem
        self.cv = threading.Condition()

    def acquire(self, w, m):
        w, m = min(w, self.n), min(m, self.mem)
        with self.cv:
            while self.free < w or self.mfree < m:
                self.cv.wait()
            self.free -= w
            self.mfree -= m
        return w, m

    def release(self, wm):
        with self.cv:
            self.free += wm[0]
            self.mfree += wm[1]
            self.cv.notify_all()


def mem_budget_gb():
    try:
        for ln in open("/proc/meminfo"):
            if ln.startswith("MemAvailable:"):
                return max(8, int(int(ln.split()[1]) / 1048576 * 0.8))
    except Exception:
        pass
    return 32


def run_all(ctx, queries, known):
    slots = Slots(ctx.jobs, mem_budget_gb())
    results = []

    def job(q):
        w = slots.acquire(q.weight, q.mem_gb)
        try:
            return run_query(ctx, q, known)
        except Exception as e:  # never lose a query silently
            import traceback
            r = QResult(q=q, status="broken", detail="driver exception: %s\n%s" % (e, traceback.format_exc()))
            return r
        finally:
            slots.release(w)

    # heavy first
    order = sorted(queries, key=lambda q: -(q.weight * 1000 + q.timeout))
    with concurrent.futures.ThreadPoolExecutor(max_workers=ctx.jobs) as ex:
        futs = {ex.submit(job, q): q for q in order}
        for fu in concurrent.futures.as_completed(futs):
            r = fu.result()
            results.append(r)
            log("  [%-12s] %-46s %6.1fs solver %5.1fs props %d/%d%s" % (
                r.status, r.q.name, r.wall, r.solver_s, r.n_ok, r.n_props,
                ("  " + r.detail.splitlines()[0][:100]) if r.detail else ""))
    results.sort(key=lambda r: r.q.name)
    return results


# --------------------------------------------------------------------------------------
def finish(ctx, info, results, known, fixed, extra_cov=None):
    """Print verdict lines, write evidence, return exit code."""
    pid = ctx.pid
    viol, inconc, broken, knownhits = [], [], [], {}
    mismatch = []
    for r in results:
        for f in r.failures:
            if "known" in f:
                knownhits.setdefault(f["known"]["line"], (f["known"], []))[1].append((r, f))
        if r.status == "violation":
            for f in r.failures:
                if "known" in f:
                    continue
                rr = f.get("replay_result", "")
                if f["kind"] == "prop" and rr in ("not-reproduced", "assume-false", "replay-build-failed") \
                        or rr.startswith("not-reproduced(") and f["kind"] == "prop":
                    mismatch.append((r, f))
                else:
                    viol.append((r, f))
        if r.status == "inconclusive":
            inconc.append(r)
        elif r.status == "broken":
            broken.append(r)
    for k, hits in knownhits.values():
        log("KNOWN-FINDING: property=%s %s  [%s; %d failing solver propert%s match]" % (
            pid, k["what"], k.get("query", "*"), len(hits), "y" if len(hits) == 1 else "ies"))
    seen = set()
    for r, f in viol:
        key = (r.q.name, f["func"], f["desc"])
        if key in seen:
            continue
        seen.add(key)
        if len(seen) > 12 or "replay" not in f:
            continue          # counted, but only the first few (replayed) ones are printed
        log("VIOLATION property=%s replay=%s" % (pid, f.get("replay", "-")))
        log("    query=%s failing=[%s] %s (%s:%s line %s) replay=%s inputs=%s" % (
            r.q.name, f["prop"], f["desc"], f["file"], f["func"], f["line"], f.get("replay_result"),
            json.dumps(f.get("inputs", {}))[:400]))
        if f.get("replay_log"):
            log("    replay-log: " + f["replay_log"].replace("\n", "\n                ")[:900])
    if len(seen) > 12:
        log("    ... %d distinct failing solver properties in total (see evidence file)" % len(seen))
    for r, f in mismatch[:8]:
        log("ENCODING-MISMATCH property=%s query=%s [%s] %s: solver counterexample did not reproduce natively (%s) -- "
            "harness/stub problem, not reported as a violation" % (pid, r.q.name, f["prop"], f["desc"], f.get("replay_result")))
        if f.get("replay_log"):
            log("    replay-log: " + f["replay_log"][:600])
    for r in inconc:
        log("INCONCLUSIVE property=%s query=%s: %s" % (pid, r.q.name, r.detail.splitlines()[0] if r.detail else ""))
    shown = set()
    for r in broken:
        d = r.detail[:1500]
        log("BROKEN property=%s query=%s: %s" % (pid, r.q.name, d if d not in shown else "(same message as above)"))
        shown.add(d)

    funcs = set()
    for r in results:
        funcs |= {f for f in r.functions if not f.startswith(("c%02d" % 0,))}
    real_funcs = sorted(f for f in funcs if not re.match(r"(c\d\d_|stubs|gen_)", f))
    n_ok_q = sum(1 for r in results if r.status in ("ok", "known"))
    nontrivial = sum(1 for r in results if r.witness and r.n_props > 0)
    wall = time.time() - ctx.t0
    cov = {
        "evaluations": len(results),
        "distinct_nontrivial": nontrivial,
        "rule": "one evaluation = one CBMC query (harness entry x structural case) decided by the SAT/SMT back end over all "
                "values of its symbolic inputs; a query is non-trivial when its reachability WITNESS was reported violated "
                "(harness end reachable, assumptions satisfiable) and it carried >= 1 proof obligation; queries have distinct names/cases",
        "obligations": sum(r.n_props for r in results),
        "discharged": sum(r.n_ok for r in results),
        "queries_ok": n_ok_q,
        "queries_inconclusive": len(inconc),
        "queries_broken": len(broken),
        "known_findings_hit": [k["line"] for k, _ in knownhits.values()],
        "fixed_entries": fixed_for(pid, fixed),
        "solver_time_s": round(sum(r.solver_s for r in results), 2),
        "cpu_wall_sum_s": round(sum(r.wall for r in results), 2),
        "functions_encoded": real_funcs,
        "source_hashes": ctx.src_hash(sorted({os.path.basename(s) for r in results for s in r.q.srcs})),
        "bounds": info.get("bounds", ""),
        "outside_claim": info.get("outside", ""),
        "checker_cmd": "cbmc 6.11.0 --unwinding-assertions --drop-unused-functions --slice-formula (per query; see samples)",
        "samples": [
            {"query": r.q.name, "entry": r.q.entry, "harness": os.path.basename(r.q.harness), "group": r.q.group,
             "real_units": [os.path.basename(s) for s in r.q.srcs], "defs": r.q.defs, "bound": r.q.bound,
             "unwind": r.q.unwind, "solver": r.q.solver or "minisat(default)", "status": r.status,
             "obligations": r.n_props, "discharged": r.n_ok, "witness_reached": r.witness,
             "wall_s": round(r.wall, 2), "solver_s": round(r.solver_s, 2),
             "excluded_checks": r.excluded[:8],
             "failures": [{k: v for k, v in f.items() if k in ("prop", "desc", "func", "file", "kind", "replay", "replay_result", "inputs")}
                          | ({"known": f["known"]["line"]} if "known" in f else {}) for f in r.failures][:8]}
            for r in results],
        "exhaustive": False,
    }
    if extra_cov:
        cov.update(extra_cov)
    ev = {
        "property_id": pid,
        "tier": ctx.tier,
        "seed": ctx.seed,
        "level": info.get("level", "model_checking"),
        "coverage": cov,
        "assumptions": info.get("assumptions", []) + ctx.notes,
        "wall_s": round(wall, 2),
        "violations": len(seen),
    }
    os.makedirs(os.path.join(VERIF, "evidence"), exist_ok=True)
    with open(os.path.join(VERIF, "evidence", pid + (".partial.json" if getattr(ctx, "partial", False) else ".json")), "w") as fh:
        json.dump(ev, fh, indent=1, default=str)
    log("%s tier=%s: %d queries, %d ok/known, %d obligations (%d discharged), %d violation(s), %d known finding(s), "
        "%d inconclusive, %d broken, wall %.1fs" % (pid, ctx.tier, len(results), n_ok_q, cov["obligations"],
                                                    cov["discharged"], len(seen), len(knownhits), len(inconc), len(broken), wall))
    if seen:
        return 1
    if mismatch or inconc or broken:
        return 2
    return 0


def fixed_for(pid, fixed):
    return [l for l in fixed if ("property=%s" % pid) in l]


def main_for(pid, info, make_queries, argv=None):
    import argparse
    ap = argparse.ArgumentParser()
    ap.add_argument("--tier", default=os.environ.get("VERIF_TIER", "quick"), choices=["quick", "thorough"])
    ap.add_argument("--only", default=None, help="fnmatch pattern on query names")
    ap.add_argument("--keep", action="store_true")
    ap.add_argument("--jobs", type=int, default=None)
    ap.add_argument("--list", action="store_true")
    a = ap.parse_args(argv)
    seed = int(os.environ.get("VERIF_SEED", "0") or 0)
    ctx = Ctx(pid, a.tier, seed, a.jobs, a.keep)
    rc = 2
    shutil.rmtree(os.path.join(VERIF, "replays", pid), ignore_errors=True)
    try:
        known, fixed = load_known(pid)
        extra = {}
        try:
            queries = make_queries(ctx, extra)
        except BuildError as e:
            log("BROKEN property=%s: could not prepare the queries: %s" % (pid, str(e)[-1500:]))
            return 2
        queries = [q for q in queries if a.tier in q.tiers]
        if a.only:
            queries = [q for q in queries if fnmatch.fnmatch(q.name, a.only)]
            ctx.partial = True          # a filtered debugging run does not overwrite the evidence file
        names = [q.name for q in queries]
        assert len(names) == len(set(names)), "duplicate query names"
        if a.list:
            for q in queries:
                log(q.name, q.entry, q.bound)
            return 0
        log("%s: %d queries, tier %s, snapshot of %d files from %s" % (pid, len(queries), a.tier, ctx.n_snap, REPO_SRC))
        results = run_all(ctx, queries, known)
        rc = finish(ctx, info, results, known, fixed, extra.get("coverage"))
    finally:
        ctx.cleanup()
    return rc
