/*
 * C15 -- diagnostics point at the right file, line and column (srcpos.c).
 *
 * Real code executed: srcpos.c (linked as its own unit; its line table is
 * file-static and is driven only through the public entry points the
 * includer and scanner use: sposInit, sposNew, sposGrowGloLineTbl, sposGet,
 * sposOffset, sposLine, sposFile, sposChar, sposGlobalLine, sposCmp, ...).
 *
 * File names are opaque to srcpos.c: it only copies, frees and compares
 * them.  Those three fname.c functions are modelled here by identity.
 */
#include "axlgen.h"
#include "fname.h"
#include "srcpos.h"
#include "verif.h"

/* ---- environment: file names are compared by identity ---- */
static char v_fileA, v_fileB, v_fileC;
#define FILE_A ((FileName) &v_fileA)
#define FILE_B ((FileName) &v_fileB)
#define FILE_C ((FileName) &v_fileC)
FileName fnameCopy(FileName f)            { return f; }
void     fnameFree(FileName f)            { (void) f; }
Bool     fnameEqual(FileName a, FileName b){ return a == b; }

/* documented field widths (srcpos.c header comment): 1 macro bit, 14 column
 * bits, one spare bit for spstack, the rest is the global line number. */
#define CNO_BITS  14
#define CNO_MAX   ((1L << CNO_BITS) - 1)
#define LNO_BITS  (64 - CNO_BITS - 1 - 1)
#define LNO_END   ((1UL << LNO_BITS) - 1)       /* reserved: END position */

/* (1) pack / unpack: the scanner builds a token position as
 *     sposOffset(linePos, index) with linePos = sposNew(..., glno, 1).
 *     For EVERY line number and EVERY column offset the line must come back
 *     exactly; the column must come back exactly while it fits the field and
 *     must not depend on the line number in any case. */
V_ENTRY(h_spos_pack, unsigned long glno; unsigned long glno2; unsigned long col0; int off; int mac;)
{
	SrcPos p, q, p2, q2, m;

	V_ASSUME(in->glno  > 0 && in->glno  < LNO_END);
	V_ASSUME(in->glno2 > 0 && in->glno2 < LNO_END);
	V_ASSUME(in->col0 <= CNO_MAX);
	V_ASSUME(in->off >= 0);

	p = sposGet(in->glno, in->col0);
	if (in->mac) p = sposMacroExpanded(p);
	V_ASSERT(sposGlobalLine(p) == in->glno, "sposGet: line comes back");
	V_ASSERT(sposChar(p) == in->col0, "sposGet: column comes back");
	V_ASSERT((sposIsMacroExpanded(p) != 0) == (in->mac != 0), "macro flag comes back");

	q = sposOffset(p, in->off);
	V_ASSERT(sposGlobalLine(q) == in->glno, "sposOffset: line number unchanged by any column offset");
	if ((long) in->col0 + in->off <= CNO_MAX)
		V_ASSERT(sposChar(q) == in->col0 + in->off, "sposOffset: column exact while it fits 14 bits");
	V_ASSERT((sposIsMacroExpanded(q) != 0) == (in->mac != 0), "sposOffset: macro flag unchanged");

	/* same column offset on another line gives the same column */
	p2 = sposGet(in->glno2, in->col0);
	q2 = sposOffset(p2, in->off);
	V_ASSERT(sposChar(q2) == sposChar(q), "column does not depend on the line number");
	V_ASSERT(sposGlobalLine(q2) == in->glno2, "sposOffset: line number unchanged (second line)");

	m = sposMacroExpanded(q);
	V_ASSERT(sposGlobalLine(m) == sposGlobalLine(q) && sposChar(m) == sposChar(q),
	         "sposMacroExpanded keeps line and column");
	V_ASSERT(sposIsMacroExpanded(m), "sposMacroExpanded sets the flag");
	V_ASSERT(sposEqual(m, q), "sposEqual ignores the macro flag");
}

/* (2) order on positions = lexicographic order on (line, column) */
V_ENTRY(h_spos_order, unsigned long l1; unsigned long c1; unsigned long l2; unsigned long c2; int m1; int m2;)
{
	SrcPos p, q; int want, got;

	V_ASSUME(in->l1 <= LNO_END && in->l2 <= LNO_END);
	V_ASSUME(in->c1 <= CNO_MAX && in->c2 <= CNO_MAX);
	p = sposGet(in->l1, in->c1); if (in->m1) p = sposMacroExpanded(p);
	q = sposGet(in->l2, in->c2); if (in->m2) q = sposMacroExpanded(q);

	want = in->l1 < in->l2 ? -1 : in->l1 > in->l2 ? 1 : in->c1 < in->c2 ? -1 : in->c1 > in->c2 ? 1 : 0;
	got  = sposCmp(p, q);
	V_ASSERT(got == want, "sposCmp is the lexicographic order on (line, column)");
	V_ASSERT((sposEqual(p, q) != 0) == (want == 0), "sposEqual iff same line and column");
	V_ASSERT(sposMin(p, q) == (want < 0 ? p : q), "sposMin");
	V_ASSERT(sposMax(p, q) == (want > 0 ? p : q), "sposMax");
	V_ASSERT(sposIsSpecial(p) == (in->l1 == 0 || in->l1 == LNO_END), "sposIsSpecial iff TOP or END line");
}

/* spstack immediates keep the position */
V_ENTRY(h_spstack, unsigned long l; unsigned long c; int m;)
{
	SrcPos p; SrcPosStack s;
	V_ASSUME(in->l <= LNO_END && in->c <= CNO_MAX);
	p = sposGet(in->l, in->c); if (in->m) p = sposMacroExpanded(p);
	s = spstackSetFirst(spstackEmpty, p);
	V_ASSERT(spstackFirst(s) == p, "spstack immediate keeps the position");
}

/*
 * (3) line table.  The includer produces a sequence of segments; segment i
 * is (file_i, first local line L_i, first global line G_i), G increasing.
 * A segment starts either because the current file changed (#include entered
 * or left: registered by the first sposNew of the segment) or because of a
 * #line directive (registered by sposGrowGloLineTbl(file, L-1, G-1) exactly
 * as include.c:inclHandleLine does, followed by sposNew for the lines).
 * Further lines of a segment are announced by sposNew with consecutive
 * numbers and must not disturb the table.  Oracle: a position on global
 * line g of segment s reports file_s and local line L_s + (g - G_s), for
 * every choice of the numbers -- which is the shift law of C15: adding k to
 * every G at or after an insertion point adds k to no reported local line and
 * moves every report with its text.
 */
#ifndef NSEG
#define NSEG 3
#endif
/* The segment structure (which file, file switch or #line) is concrete per
 * query and all structures are enumerated by props/c15.py; every number is
 * symbolic. */
#ifndef CASE_FILES
#define CASE_FILES  0, 1, 0
#define CASE_BYLINE 0, 0, 1
#endif
static const int c_file[NSEG]   = { CASE_FILES };
static const int c_byLine[NSEG] = { CASE_BYLINE };

V_ENTRY(h_spos_table,
        unsigned long L[NSEG]; unsigned long G[NSEG];
        unsigned long more[NSEG]; int qs; unsigned long qj; unsigned long qc;)
{
	FileName fn[NSEG]; int i, s; unsigned long g, len;
	SrcPos p;
	struct { int file[NSEG]; int byLine[NSEG]; } cc, *inc = &cc;
	for (i = 0; i < NSEG; i++) { cc.file[i] = c_file[i]; cc.byLine[i] = c_byLine[i]; }

	sposInit();
	for (i = 0; i < NSEG; i++) {
		V_ASSUME(inc->file[i] >= 0 && inc->file[i] <= 2);
		fn[i] = inc->file[i] == 0 ? FILE_A : inc->file[i] == 1 ? FILE_B : FILE_C;
		V_ASSUME(in->L[i] >= 1 && in->L[i] < (1UL << 40));
		V_ASSUME(in->G[i] >= 1 && in->G[i] < (1UL << 40));
		if (i == 0)
			V_ASSUME(in->G[0] >= 2 || !inc->byLine[0]);
		else {
			/* previous segment has at least one line; a #line directive occupies one more global line */
			V_ASSUME(in->G[i] > in->G[i-1] + in->more[i-1] + (inc->byLine[i] ? 1 : 0));
			if (!inc->byLine[i]) V_ASSUME(inc->file[i] != inc->file[i-1]);
		}
		if (inc->byLine[i]) V_ASSUME(in->L[i] >= 1);
		V_ASSUME(in->more[i] < (1UL << 20));
	}
	for (i = 0; i < NSEG; i++) {
		if (inc->byLine[i])
			sposGrowGloLineTbl(fn[i], in->L[i] - 1, in->G[i] - 1);
		p = sposNew(fn[i], in->L[i], in->G[i], 1);
		V_ASSERT(sposGlobalLine(p) == in->G[i] && sposChar(p) == 1, "sposNew returns (glno, column 1)");
#ifdef CASE_NOMORE
		V_ASSUME(in->more[i] == 0);
#else
		if (in->more[i]) {
			p = sposNew(fn[i], in->L[i] + in->more[i], in->G[i] + in->more[i], 1);
			V_ASSERT(sposGlobalLine(p) == in->G[i] + in->more[i], "sposNew returns glno (later line of segment)");
		}
#endif
	}
	/* query an arbitrary position inside an arbitrary segment */
#ifdef CASE_QS
	s = CASE_QS;
#else
	s = in->qs;
	V_ASSUME(s >= 0 && s < NSEG);
#endif
	len = (s + 1 < NSEG) ? in->G[s+1] - (inc->byLine[s+1] ? 1 : 0) - in->G[s] : (1UL << 41);
	V_ASSUME(in->qj < len);
	V_ASSUME(in->qc >= 1 && in->qc <= CNO_MAX);
	g = in->G[s] + in->qj;
	p = sposOffset(sposGet(g, 1), (int) in->qc - 1);
	V_ASSERT(sposLine(p) == in->L[s] + in->qj, "sposLine = local line of the covering segment");
	V_ASSERT(sposFile(p) == fn[s], "sposFile = file of the covering segment");
	V_ASSERT(sposChar(p) == in->qc, "sposChar = column");
}
