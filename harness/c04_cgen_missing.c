/* placeholder query used when the scratch compiler could not translate the generated kernel file:
 * it fails its (only) obligation so that the missing leg is reported instead of silently skipped */
#include "verif.h"
V_ENTRY(h_cgen_missing, int x;)
{
	V_ASSERT(0, "the compiler translated the generated builtin kernel file to C (emitted-C leg available)");
}
