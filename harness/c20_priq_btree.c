/*
 * C20 -- priority queue returns minima in order (priq.c); B-tree is an ordered multimap (btree.c).
 * Real units linked: priq.c, btree.c, util.c (cielLg).  Operation kinds and keys are symbolic.
 */
#include "axlgen.h"
#include "priq.h"
#include "btree.h"
#include "verif.h"
#ifdef V_BTREE_INTERNALS
#include "btree.c"          /* the restructuring helpers are file-local */
#endif

#ifndef KOPS
#define KOPS 6
#endif

/* Typed storage model for the two blocks a priority queue owns (-DV_NO_STO_STUBS): the header and the
 * heap array; growing the array is done in place up to 16 slots (a legal realloc outcome).  With an untyped
 * arena the 3-operation query had 24 M SAT variables. */
#include "store.h"
static struct priq     v_pq;
static struct priqPart v_parts[16];
MostAlignedType *stoAlloc(unsigned code, ULong size)
{
	(void) code;
	if (size == sizeof(struct priq)) return (MostAlignedType *) &v_pq;
	V_ASSUME(size <= sizeof v_parts);
	return (MostAlignedType *) v_parts;
}
MostAlignedType *stoResize(Pointer p, ULong size)
{
	V_ASSERT(p == (Pointer) v_parts, "priq only resizes its heap array");
	V_ASSUME(size <= sizeof v_parts);
	return (MostAlignedType *) v_parts;
}
void stoFree(Pointer p) { (void) p; }

/* ------------------------------------------------------------------ priority queue */
V_ENTRY(h_priq, int op[KOPS]; short key[KOPS];)
{
	PriQ pq = priqNew(2);
	double skey[KOPS]; int live[KOPS], nlive = 0, k, j;
	for (k = 0; k < KOPS; k++) live[k] = 0;
	for (k = 0; k < KOPS; k++) {
		if (in->op[k] & 1) {                                    /* insert element k with key[k] */
			skey[k] = (double) in->key[k];
			priqInsert(pq, skey[k], (PriQElt)(long)(k + 1));
			live[k] = 1; nlive++;
		}
		else {                                                  /* extract the minimum */
			PriQKey got; long id; double mn = 0; int any = 0;
			V_ASSUME(nlive > 0);                            /* documented precondition: queue not empty */
			id = (long) priqExtractMin(pq, &got) - 1;
			for (j = 0; j < KOPS; j++) if (live[j] && (!any || skey[j] < mn)) { mn = skey[j]; any = 1; }
			V_ASSERT(got == mn, "priqExtractMin returns the minimum key present");
			V_ASSERT(id >= 0 && id < KOPS && live[id], "priqExtractMin returns an element that is in the queue");
			V_ASSERT(skey[id] == got, "the returned element is the one stored with the returned key");
			live[id] = 0; nlive--;
		}
		V_ASSERT(priqCount(pq) == (Length) nlive, "priqCount = number of elements");
	}
}

/* ------------------------------------------------------------------ B-tree, t = 2
 * One operation from an ARBITRARY valid tree of a given shape (inductive step): the shape (number of keys in
 * the root and in each child; -DROOTK, -DCH0..3) is concrete and enumerated by props/c20.py over all trees of
 * height <= 2, the keys are symbolic and constrained only by the real btreeCheck() == 0.  History-based
 * harnesses (k symbolic operations from the empty tree) did not get through symex for k = 3.
 */
#ifndef ROOTK
#define ROOTK 1
#define CH0 1
#define CH1 3
#define CH2 0
#define CH3 0
#endif
#define POOL 28
static struct btree v_pool[POOL];
static int v_used;
static BTree v_alloc(ULong nbytes)
{
	V_ASSERT(nbytes <= sizeof(struct btree), "node size for t=2 fits struct btree");
	V_ASSUME(v_used < POOL);
	return &v_pool[v_used++];
}
static void v_free(BTree b) { (void) b; }

static long cnt(BTree x, unsigned long key, int depth)          /* occurrences of key, tree of height <= 3 */
{
	long n = 0; int i;
	for (i = 0; i < x->nKeys && i < 3; i++) if (x->part[i].key == key) n++;
	if (!x->isLeaf && depth < 3)
		for (i = 0; i <= x->nKeys && i < 4; i++) n += cnt(x->part[i].branch, key, depth + 1);
	return n;
}

V_ENTRY(h_btree_step, unsigned char rk[3]; unsigned char ck[4][3]; int op; unsigned char key; unsigned char probe; unsigned char victim;)
{
	static const int CH[4] = { CH0, CH1, CH2, CH3 };
	BTree bt = &v_pool[0], nd; int i, j, ix, nkeys = 0; long pre_probe, pre_key, id = 1;
	unsigned long all[16];
	/* ---- build the pre-state ---- */
	v_used = 1;
	bt->t = 2; bt->nKeys = ROOTK; bt->isLeaf = (CH0 == 0);
	for (i = 0; i < ROOTK; i++) { bt->part[i].key = in->rk[i]; bt->part[i].entry = (BTreeElt) id++; all[nkeys++] = in->rk[i]; }
	if (CH0) for (j = 0; j <= ROOTK; j++) {
		BTree c = &v_pool[v_used++];
		c->t = 2; c->isLeaf = 1; c->nKeys = CH[j];
		for (i = 0; i < CH[j]; i++) { c->part[i].key = in->ck[j][i]; c->part[i].entry = (BTreeElt) id++; all[nkeys++] = in->ck[j][i]; }
		bt->part[j].branch = c;
	}
	V_ASSUME(btreeCheck(bt) == 0);                   /* arbitrary VALID tree: the real invariant checker is the precondition */
	pre_probe = cnt(bt, in->probe, 1);
	/* ---- queries on the pre-state ---- */
	{
		unsigned long p = in->probe, ge = 0, mn = 0, mx = 0; int anyge = 0;
		for (i = 0; i < nkeys; i++) {
			if (all[i] >= p && (!anyge || all[i] < ge)) { ge = all[i]; anyge = 1; }
			if (i == 0 || all[i] < mn) mn = all[i];
			if (i == 0 || all[i] > mx) mx = all[i];
		}
		nd = btreeSearchEQ(bt, p, &ix);
		V_ASSERT((nd != 0) == (pre_probe > 0), "btreeSearchEQ finds a key iff it is present");
		if (nd) V_ASSERT(btreeKey(nd, ix) == p, "btreeSearchEQ returns an entry with that key");
		nd = btreeSearchGE(bt, p, &ix);
		V_ASSERT((nd != 0) == (anyge != 0), "btreeSearchGE finds something iff a key >= probe exists");
		if (nd) V_ASSERT(btreeKey(nd, ix) == ge, "btreeSearchGE returns the smallest key >= probe");
		if (nkeys) {
			nd = btreeSearchMin(bt, &ix); V_ASSERT(nd && btreeKey(nd, ix) == mn, "btreeSearchMin");
			nd = btreeSearchMax(bt, &ix); V_ASSERT(nd && btreeKey(nd, ix) == mx, "btreeSearchMax");
		}
	}
	/* ---- one update ---- */
#ifdef OPK
	if (OPK) {
#else
	if (in->op & 1) {
#endif
		unsigned long k = in->key;
		btreeInsertX(&bt, k, (BTreeElt) 100, v_alloc);
		V_ASSERT(btreeCheck(bt) == 0, "btreeInsert: B-tree invariants hold afterwards");
		V_ASSERT(cnt(bt, in->probe, 1) == pre_probe + (in->probe == k), "btreeInsert: multiset of keys = old + {key}");
	}
	else {
		unsigned long k; BTreeElt e = 0;
		V_ASSUME(nkeys > 0 && in->victim < nkeys);
		k = all[in->victim];                     /* store.c only deletes keys that are present */
		btreeDeleteX(&bt, k, &e, v_free);
		V_ASSERT(btreeCheck(bt) == 0, "btreeDelete: B-tree invariants hold afterwards");
		V_ASSERT(cnt(bt, in->probe, 1) == pre_probe - (in->probe == k), "btreeDelete: exactly one entry with the key is removed");
		V_ASSERT((long) e >= 1 && (long) e < id, "btreeDelete returns the entry that was stored");
	}
}

#ifdef V_BTREE_INTERNALS
/* ------------------------------------------------------------------ B-tree restructuring primitives
 * btreeSplitChild / btreeUnsplitChild / btreeRotateDown / btreeRotateUp applied at a concrete child index of an
 * arbitrary valid two-level tree of concrete shape with symbolic keys: invariants, key multiset and key->entry
 * pairing are preserved.  (Whole insert/delete on two-level trees did not get through symex; these are the
 * steps they are made of.)
 */
#ifndef HOP
#define HOP 0
#define IDX 0
#endif
static int paired(BTree x, int depth)
{
	int i, ok = 1;
	for (i = 0; i < x->nKeys && i < 3; i++) if ((long) x->part[i].entry != (long) x->part[i].key + 1000) ok = 0;
	if (!x->isLeaf && depth < 3) for (i = 0; i <= x->nKeys && i < 4; i++) if (!paired(x->part[i].branch, depth + 1)) ok = 0;
	return ok;
}
V_ENTRY(h_btree_helper, unsigned char rk[3]; unsigned char ck[4][3]; unsigned char gk[4][4]; unsigned char probe;)
{
	static const int CH[4] = { CH0, CH1, CH2, CH3 };
	BTree bt = &v_pool[0]; int i, j; long pre;
	v_used = 1;
	bt->t = 2; bt->nKeys = ROOTK; bt->isLeaf = 0;
	for (i = 0; i < ROOTK; i++) { bt->part[i].key = in->rk[i]; bt->part[i].entry = (BTreeElt)((long) in->rk[i] + 1000); }
	for (j = 0; j <= ROOTK; j++) {
		BTree c = &v_pool[v_used++];
		c->t = 2; c->isLeaf = 1; c->nKeys = CH[j];
		for (i = 0; i < CH[j]; i++) { c->part[i].key = in->ck[j][i]; c->part[i].entry = (BTreeElt)((long) in->ck[j][i] + 1000); }
		bt->part[j].branch = c;
#ifdef INNER
		{	/* the children are interior nodes: each gets nKeys+1 minimal leaves (one key) below it, so that the
			 * branch-pointer moves of the restructuring steps are exercised as well */
			int g;
			c->isLeaf = 0;
			for (g = 0; g <= CH[j]; g++) {
				BTree l = &v_pool[v_used++];
				l->t = 2; l->isLeaf = 1; l->nKeys = 1;
				l->part[0].key = in->gk[j][g]; l->part[0].entry = (BTreeElt)((long) in->gk[j][g] + 1000);
				c->part[g].branch = l;
			}
		}
#endif
	}
	V_ASSUME(btreeCheck(bt) == 0);
	pre = cnt(bt, in->probe, 1);
	switch (HOP) {
	case 0:  btreeSplitChild(bt, IDX, v_alloc); break;
	case 1:  btreeUnsplitChild(bt, IDX, v_free); break;
	case 2:  btreeRotateDown(bt, IDX); break;
	default: btreeRotateUp(bt, IDX); break;
	}
	if (HOP == 1 && ROOTK == 1) {
		/* merging the only two children empties the root; btreeDeleteX then makes the merged child the root
		 * (an empty inner root is not a state btreeCheck accepts -- requiring that was a harness over-demand) */
		V_ASSERT(bt->nKeys == 0 && bt->part[0].branch->nKeys == 3, "unsplit: merged node has 2t-1 keys");
		bt = bt->part[0].branch;
	}
	V_ASSERT(btreeCheck(bt) == 0, "restructuring step keeps the B-tree invariants (order, key counts)");
	V_ASSERT(cnt(bt, in->probe, 1) == pre, "restructuring step keeps the multiset of keys");
	V_ASSERT(paired(bt, 1), "restructuring step keeps every key with its entry");
	if (HOP == 0) V_ASSERT(bt->nKeys == ROOTK + 1 && bt->part[IDX].branch->nKeys == 1 && bt->part[IDX + 1].branch->nKeys == 1, "split: median promoted, halves have t-1 keys");
	if (HOP == 1 && ROOTK > 1) V_ASSERT(bt->nKeys == ROOTK - 1 && bt->part[IDX].branch->nKeys == 3, "unsplit: merged node has 2t-1 keys");
	if (HOP == 2) V_ASSERT(bt->part[IDX].branch->nKeys == CH[IDX] + 1 && bt->part[IDX + 1].branch->nKeys == CH[IDX + 1] - 1, "rotate down moves one key right-to-left");
	if (HOP == 3) V_ASSERT(bt->part[IDX].branch->nKeys == CH[IDX] - 1 && bt->part[IDX + 1].branch->nKeys == CH[IDX + 1] + 1, "rotate up moves one key left-to-right");
}
#endif
