/*
 * C20 -- bit vectors implement set algebra (bitv.c).
 * Vectors of a SYMBOLIC number of bits 1..NB_MAX (crossing the word boundary), arbitrary
 * contents including garbage in the unused bits of the last word.  The oracle is per-bit:
 * for an arbitrary index i < nbits the result bit is the boolean function of the operand bits.
 */
#include "axlgen.h"
#include "bitv.h"
#include "verif.h"

#ifndef NB_MAX
#define NB_MAX 70
#endif
#define NW 2

static struct _BitvClass v_cls;
static BitvClass mkclass(int nbits)
{
	V_ASSUME(nbits >= 1 && nbits <= NB_MAX);
	v_cls.nbits = nbits;
	v_cls.nwords = (nbits + 63) / 64;
	return &v_cls;
}
#define BIT(v, i) ((int)(((v)[(i) / 64] >> ((i) % 64)) & 1))

V_ENTRY(h_bitv_algebra, int nbits; unsigned long a[NW]; unsigned long b[NW]; unsigned long r0[NW]; int i; int op;)
{
	BitvClass c = mkclass(in->nbits);
	BitvWord a[NW], b[NW], r[NW]; int k, i = in->i, ea, eb, got, want;
	for (k = 0; k < NW; k++) { a[k] = in->a[k]; b[k] = in->b[k]; r[k] = in->r0[k]; }
	V_ASSUME(i >= 0 && i < in->nbits);
	ea = BIT(a, i); eb = BIT(b, i);
	V_ASSUME(in->op >= 0 && in->op <= 6);
	switch (in->op) {
	case 0: bitvAnd(c, r, a, b);   want = ea & eb;  break;
	case 1: bitvOr(c, r, a, b);    want = ea | eb;  break;
	case 2: bitvMinus(c, r, a, b); want = ea & !eb; break;
	case 3: bitvNot(c, r, a);      want = !ea;      break;
	case 4: bitvCopy(c, r, a);     want = ea;       break;
	case 5: bitvSetAll(c, r);      want = 1;        break;
	default: bitvClearAll(c, r);   want = 0;        break;
	}
	got = bitvTest(c, r, i);
	V_ASSERT(got == want, "bitv and/or/minus/not/copy/setAll/clearAll: result bit = boolean function of operand bits");
	V_ASSERT(BIT(a, i) == ea && BIT(b, i) == eb, "operands unchanged");
}

V_ENTRY(h_bitv_setclear, int nbits; unsigned long a[NW]; int i; int j;)
{
	BitvClass c = mkclass(in->nbits);
	BitvWord a[NW]; int k, i = in->i, j = in->j, before;
	for (k = 0; k < NW; k++) a[k] = in->a[k];
	V_ASSUME(i >= 0 && i < in->nbits && j >= 0 && j < in->nbits);
	before = bitvTest(c, a, j);
	V_ASSERT(before == BIT(a, j), "bitvTest reads bit j");
	bitvSet(c, a, i);
	V_ASSERT(bitvTest(c, a, i) == 1, "bitvSet sets bit i");
	V_ASSERT(i == j || bitvTest(c, a, j) == before, "bitvSet leaves other bits");
	bitvClear(c, a, i);
	V_ASSERT(bitvTest(c, a, i) == 0, "bitvClear clears bit i");
	V_ASSERT(i == j || bitvTest(c, a, j) == before, "bitvClear leaves other bits");
}

/* equality ignores the unused bits of the last word and is exactly bitwise equality on the used ones */
V_ENTRY(h_bitv_equal, int nbits; unsigned long a[NW]; unsigned long b[NW]; int i;)
{
	BitvClass c = mkclass(in->nbits);
	BitvWord a[NW], b[NW]; int k, eq, i = in->i;
	for (k = 0; k < NW; k++) { a[k] = in->a[k]; b[k] = in->b[k]; }
	eq = bitvEqual(c, a, b);
	V_ASSUME(i >= 0 && i < in->nbits);
	if (eq) V_ASSERT(BIT(a, i) == BIT(b, i), "bitvEqual true => every used bit equal");
	else {
		/* some used bit differs: compare word-wise with the tail masked */
		unsigned long m1 = in->nbits >= 64 ? ~0UL : ((1UL << in->nbits) - 1);
		unsigned long m2 = in->nbits <= 64 ? 0 : (in->nbits - 64 >= 64 ? ~0UL : ((1UL << (in->nbits - 64)) - 1));
		V_ASSERT(((a[0] ^ b[0]) & m1) != 0 || ((a[1] ^ b[1]) & m2) != 0, "bitvEqual false => some used bit differs");
	}
}

/* counting functions against a popcount reference */
V_ENTRY(h_bitv_count, int nbits; unsigned long a[NW]; int n; int org; int lim;)
{
	BitvClass c = mkclass(in->nbits);
	BitvWord a[NW]; int k, cnt = 0, mx = -1, cto = 0, n1 = 0, last = -1;
	for (k = 0; k < NW; k++) a[k] = in->a[k];
	V_ASSUME(in->n >= 0 && in->n <= in->nbits);
	V_ASSUME(in->org >= 0 && in->org <= in->lim && in->lim <= in->nbits);
	for (k = 0; k < NB_MAX; k++) if (k < in->nbits && BIT(a, k)) {
		cnt++; mx = k;
		if (k < in->n) cto++;
		if (k >= in->org && k < in->lim) { n1++; last = k; }
	}
	V_ASSERT(bitvCount(c, a) == cnt, "bitvCount = number of set bits");
	V_ASSERT(bitvMax(c, a) == mx, "bitvMax = index of highest set bit, -1 if none");
	V_ASSERT(bitvCountTo(c, a, in->n) == cto, "bitvCountTo(n) = set bits below n");
	V_ASSERT(bitvUnique1IndexInRange(c, a, in->org, in->lim) == (n1 == 1 ? last : -1), "bitvUnique1IndexInRange");
}

/* int <-> bitv conversion (nbits < 32) */
V_ENTRY(h_bitv_int, int nbits; int n;)
{
	BitvClass c; Bitv v; int back;
	V_ASSUME(in->nbits >= 1 && in->nbits <= 31);
	c = mkclass(in->nbits);
	v = bitvFromInt(c, in->n);
	back = bitvToInt(c, v);
	V_ASSERT(back == (in->n & (int)((1u << in->nbits) - 1)), "bitvToInt(bitvFromInt(n)) = low nbits of n");
}

/* growing a vector keeps the old bits */
V_ENTRY(h_bitv_resize, int nb_old; int nb_new; unsigned long a[NW]; int i;)
{
	struct _BitvClass oc, nc; Bitv v, w; int k, i = in->i, e;
	V_ASSUME(in->nb_old >= 1 && in->nb_old <= in->nb_new && in->nb_new <= 2 * 64);
	oc.nbits = in->nb_old; oc.nwords = (in->nb_old + 63) / 64;
	nc.nbits = in->nb_new; nc.nwords = (in->nb_new + 63) / 64;
	v = bitvNew(&oc);
	for (k = 0; k < oc.nwords; k++) v[k] = in->a[k];
	V_ASSUME(i >= 0 && i < in->nb_old);
	e = BIT(v, i);
	w = bitvResize(&nc, &oc, v);
	V_ASSERT(bitvTest(&nc, w, i) == e, "bitvResize keeps the old bits");
}
