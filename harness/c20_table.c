/*
 * C20 -- the hash table behaves as a finite map (table.c).
 *
 * One operation from an ARBITRARY valid table of a given chain shape (inductive step).  The pre-state is
 * built from static typed objects: BUCKC buckets, bucket 0 holds a chain of L0 entries and bucket 1 a chain
 * of L1 entries (-DBUCKC, -DL0, -DL1; all shapes enumerated by props/c20.py).  Keys come from a universe of
 * NKEY keys; the HASH VALUE of every key is symbolic (so every collision pattern -- same hash, same bucket
 * with different hash, different bucket -- is covered), the hash function is the harness function that looks
 * the value up, equality is key identity.  The operation (set / drop / lookup), its key and the probe key are
 * symbolic.  Oracle: a shadow finite map.
 */
#include "axlgen.h"
#include "table.h"
#include "store.h"
#include "verif.h"

#ifndef BUCKC
#define BUCKC 7
#endif
#ifndef L0
#define L0 2
#endif
#ifndef L1
#define L1 1
#endif
#define NKEY 6
#define NSLOT (L0 + L1 + 1)

static unsigned long v_hash[NKEY];                 /* symbolic hash value per key        */
static struct table   v_tbl;
static struct TblSlot *v_buckv[16];
static struct TblSlot v_slot[NSLOT + 1];
static int v_nalloc;

static Hash v_hfun(TblKey k) { return v_hash[(long) k - 1]; }
static Bool v_eq(TblKey a, TblKey b) { return a == b; }

/* storage: a new entry is the spare static slot; a new bucket vector (tblEnlarge) is a static array */
static struct TblSlot *v_nbuckv[16];
MostAlignedType *stoAlloc(unsigned code, ULong size)
{
	(void) code;
	if (size == sizeof(struct TblSlot)) { V_ASSUME(v_nalloc == 0); v_nalloc++; return (MostAlignedType *) &v_slot[NSLOT]; }
	V_ASSUME(size <= sizeof v_nbuckv);
	return (MostAlignedType *) v_nbuckv;
}
void stoFree(Pointer p) { (void) p; }

/* shadow map over the key universe */
static int  s_in[NKEY];
static long s_val[NKEY];

V_ENTRY(h_table_step, unsigned char hash[NKEY]; unsigned char key0[5]; unsigned char key1[2]; long val[7];
        int op; unsigned char k; unsigned char q; long e;)
{
	Table t = &v_tbl; int i, n = 0; long kk, qq;
	for (i = 0; i < NKEY; i++) { v_hash[i] = in->hash[i]; s_in[i] = 0; s_val[i] = 0; }
	for (i = 0; i < 16; i++) v_buckv[i] = 0;
	t->hashFun = v_hfun; t->eqFun = v_eq; t->info = 0; t->buckc = BUCKC; t->buckv = v_buckv;
	/* ---- pre-state: chains in bucket 0 and bucket 1, distinct keys, hash consistent with the bucket ---- */
	for (i = 0; i < L0; i++) {
		long key = in->key0[i] % NKEY;
		V_ASSUME(!s_in[key]);
		V_ASSUME(v_hash[key] % BUCKC == 0);
		v_slot[n].key = (TblKey)(key + 1); v_slot[n].elt = (TblElt) in->val[n]; v_slot[n].hash = v_hash[key];
		v_slot[n].next = (i + 1 < L0) ? &v_slot[n + 1] : 0;
		s_in[key] = 1; s_val[key] = in->val[n];
		n++;
	}
	if (L0) v_buckv[0] = &v_slot[0];
	for (i = 0; i < L1; i++) {
		long key = in->key1[i] % NKEY;
		V_ASSUME(BUCKC > 1);
		V_ASSUME(!s_in[key]);
		V_ASSUME(v_hash[key] % BUCKC == 1);
		v_slot[n].key = (TblKey)(key + 1); v_slot[n].elt = (TblElt) in->val[n]; v_slot[n].hash = v_hash[key];
		v_slot[n].next = (i + 1 < L1) ? &v_slot[n + 1] : 0;
		s_in[key] = 1; s_val[key] = in->val[n];
		if (i == 0) v_buckv[1] = &v_slot[n];
		n++;
	}
	t->count = n;
	kk = in->k % NKEY; qq = in->q % NKEY;
	V_ASSUME(in->e != -1);
	/* ---- one operation ---- */
#ifdef TOP
	switch (TOP) {
#else
	switch (in->op % 3) {
#endif
	case 0: {
		TblElt r = tblSetElt(t, (TblKey)(kk + 1), (TblElt) in->e);
		V_ASSERT((long) r == in->e, "tblSetElt returns the stored value");
		s_in[kk] = 1; s_val[kk] = in->e;
		break; }
	case 1:
		tblDrop(t, (TblKey)(kk + 1));
		s_in[kk] = 0;
		break;
	default: {
		long r = (long) tblElt(t, (TblKey)(kk + 1), (TblElt) -1L);
		V_ASSERT(r == (s_in[kk] ? s_val[kk] : -1), "tblElt returns the value stored for the key, else the default");
		break; }
	}
	/* ---- the table is the shadow map ---- */
	{
		long r, cnt = 0, seen = 0; TableIterator it; int steps = 0;
		for (i = 0; i < NKEY; i++) cnt += s_in[i];
		V_ASSERT((long) tblSize(t) == cnt, "tblSize = number of entries");
		r = (long) tblElt(t, (TblKey)(qq + 1), (TblElt) -1L);
		V_ASSERT(r == (s_in[qq] ? s_val[qq] : -1), "lookup of an arbitrary key agrees with the finite map after the operation");
		/* iteration visits the probe key's entry exactly once iff present, and visits tblSize entries in total */
		for (tblITER(it, t); tblMORE(it) && steps < NSLOT + 2; tblSTEP(it)) {
			steps++;
			if (tblKEY(it) == (TblKey)(qq + 1)) {
				seen++;
				V_ASSERT((long) tblELT(it) == s_val[qq], "iteration yields the stored value");
			}
		}
		V_ASSERT(steps == cnt, "iteration visits exactly tblSize entries");
		V_ASSERT(seen == (s_in[qq] ? 1 : 0), "iteration visits an entry once iff its key is present");
	}
}
