/* glibc <ctype.h> back end for the solver: the macros isdigit()/isalpha()/tolower()... expand to
 * table look-ups through these three functions.  The tables are dumped from the real libc
 * (C locale) by gen_ctype_tables.c on every run -> v_ctype_tables.h in the scratch directory. */
#ifdef V_CBMC
#include "v_ctype_tables.h"
static const unsigned short *v_b  = v_ctype_b  + 128;
static const int            *v_lo = v_ctype_lo + 128;
static const int            *v_up = v_ctype_up + 128;
const unsigned short **__ctype_b_loc(void)       { return &v_b; }
const int            **__ctype_tolower_loc(void) { return &v_lo; }
const int            **__ctype_toupper_loc(void) { return &v_up; }
int tolower(int c) { return c >= -128 && c < 256 ? v_lo[c] : c; }
int toupper(int c) { return c >= -128 && c < 256 ? v_up[c] : c; }
#endif
