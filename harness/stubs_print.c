/* printing has no effect on any property checked with this stub file (DESIGN.md 1.2): empty bodies */
#include <stdio.h>
#include <stdarg.h>
#ifdef V_CBMC
static FILE v_dbout_obj;
FILE *dbOut = &v_dbout_obj;
int fprintf(FILE *f, const char *fmt, ...) { (void) f; (void) fmt; return 0; }
int vfprintf(FILE *f, const char *fmt, va_list ap) { (void) f; (void) fmt; (void) ap; return 0; }
int printf(const char *fmt, ...) { (void) fmt; return 0; }
int fputs(const char *s, FILE *f) { (void) s; (void) f; return 0; }
int fputc(int c, FILE *f) { (void) f; return c; }
int fflush(FILE *f) { (void) f; return 0; }
#endif
