/*
 * C19 -- floating-point constants keep their exact value (xfloat.c part).
 *
 * Real code executed: xfloat.c (xsf/xdf FrNative, ToNative, Assemble,
 * Dissemble, Classify, sf/df Assemble, Dissemble, Classify, fracNormalize,
 * fracDenormalize) and util.c (bfShiftUp, bfShiftDn, bfFirst1).
 *
 * Inputs: an arbitrary 32-bit / 64-bit pattern.  No bound on the value; the
 * only bound is loop unwinding, discharged by --unwinding-assertions.
 */
#include "axlgen.h"
#include "util.h"
#include "xfloat.h"
#include "verif.h"
#include <string.h>

static unsigned f2u(float f)   { unsigned u; memcpy(&u, &f, 4); return u; }
static float    u2f(unsigned u){ float f;    memcpy(&f, &u, 4); return f; }
static unsigned long d2u(double d)       { unsigned long u; memcpy(&u, &d, 8); return u; }
static double        u2d(unsigned long u){ double d;        memcpy(&d, &u, 8); return d; }

#define SF_IS_NAN(u)  ((((u) >> 23) & 0xff) == 0xff && ((u) & 0x7fffff) != 0)
#define DF_IS_NAN(u)  ((((u) >> 52) & 0x7ff) == 0x7ff && ((u) & 0xfffffffffffffUL) != 0)

/* (1) portable encoding round trip, single */
V_ENTRY(h_xsf_roundtrip, unsigned bits;)
{
	float   f = u2f(in->bits), g;
	XSFloat x;
	unsigned out;

	xsfFrNative(&x, &f);
	xsfToNative(&x, &g);
	out = f2u(g);
	if (SF_IS_NAN(in->bits)) {
		V_ASSERT(SF_IS_NAN(out), "xsf round trip: NaN stays NaN");
		V_ASSERT((out >> 31) == (in->bits >> 31), "xsf round trip: NaN keeps sign");
	}
	else
		V_ASSERT(out == in->bits, "xsf round trip: same bits");
}

/* (1) portable encoding round trip, double */
V_ENTRY(h_xdf_roundtrip, unsigned long bits;)
{
	double  d = u2d(in->bits), e;
	XDFloat x;
	unsigned long out;

	xdfFrNative(&x, &d);
	xdfToNative(&x, &e);
	out = d2u(e);
	if (DF_IS_NAN(in->bits)) {
		V_ASSERT(DF_IS_NAN(out), "xdf round trip: NaN stays NaN");
		V_ASSERT((out >> 63) == (in->bits >> 63), "xdf round trip: NaN keeps sign");
	}
	else
		V_ASSERT(out == in->bits, "xdf round trip: same bits");
}

/* (3) dissemble / assemble identity on native floats */
V_ENTRY(h_sf_disasm, unsigned bits;)
{
	float f = u2f(in->bits), g = 0.0f;
	Bool  sign, isz; int expon; UByte fb[sizeof(float)];

	sfDissemble(&f, &sign, &expon, fb, &isz);
	sfAssemble(&g, sign, expon, fb);
	V_ASSERT(f2u(g) == in->bits, "sfAssemble(sfDissemble(x)) has the bits of x");
	V_ASSERT((sign != 0) == (in->bits >> 31), "sfDissemble: sign");
	V_ASSERT(expon == (int)((in->bits >> 23) & 0xff) - SF_Excess, "sfDissemble: exponent is field minus excess");
	V_ASSERT((isz != 0) == ((in->bits << 1) == 0), "sfDissemble: iszero flag iff +-0");
}

V_ENTRY(h_df_disasm, unsigned long bits;)
{
	double d = u2d(in->bits), e = 0.0;
	Bool  sign, isz; int expon; UByte fb[sizeof(double)];

	dfDissemble(&d, &sign, &expon, fb, &isz);
	dfAssemble(&e, sign, expon, fb);
	V_ASSERT(d2u(e) == in->bits, "dfAssemble(dfDissemble(x)) has the bits of x");
	V_ASSERT((sign != 0) == (in->bits >> 63), "dfDissemble: sign");
	V_ASSERT(expon == (int)((in->bits >> 52) & 0x7ff) - DF_Excess, "dfDissemble: exponent is field minus excess");
	V_ASSERT((isz != 0) == ((in->bits << 1) == 0), "dfDissemble: iszero flag iff +-0");
}

/* (3) dissemble / assemble identity on portable images (arbitrary bytes) */
V_ENTRY(h_xsf_disasm, unsigned char b[6];)
{
	XSFloat x, y; Bool sign; int expon; UByte fb[4]; int i;
	for (i = 0; i < 2; i++) x.sexp[i] = in->b[i];
	for (i = 0; i < 4; i++) x.frac[i] = in->b[2 + i];
	xsfDissemble(&x, &sign, &expon, fb);
	xsfAssemble(&y, sign, expon, fb);
	for (i = 0; i < 2; i++) V_ASSERT(y.sexp[i] == x.sexp[i], "xsfAssemble(xsfDissemble(x)) sexp");
	for (i = 0; i < 4; i++) V_ASSERT(y.frac[i] == x.frac[i], "xsfAssemble(xsfDissemble(x)) frac");
}

V_ENTRY(h_xdf_disasm, unsigned char b[10];)
{
	XDFloat x, y; Bool sign; int expon; UByte fb[8]; int i;
	for (i = 0; i < 2; i++) x.sexp[i] = in->b[i];
	for (i = 0; i < 8; i++) x.frac[i] = in->b[2 + i];
	xdfDissemble(&x, &sign, &expon, fb);
	xdfAssemble(&y, sign, expon, fb);
	for (i = 0; i < 2; i++) V_ASSERT(y.sexp[i] == x.sexp[i], "xdfAssemble(xdfDissemble(x)) sexp");
	for (i = 0; i < 8; i++) V_ASSERT(y.frac[i] == x.frac[i], "xdfAssemble(xdfDissemble(x)) frac");
}
