/*
 * C11 -- big-integer arithmetic is exact: kernel level (iintXxx of bigint.c).
 *
 * The real bigint.c is #included so that its macros (BINT_LG_RADIX, Placev,
 * PlusStep, DivideDouble ...) and file-local functions are the ones under
 * test.  Operands are struct bint objects on the stack with a CONCRETE digit
 * count (-DAC, -DBC: one query per shape, all shapes up to the bound are
 * run) and SYMBOLIC digits, normalised (top digit != 0).  The oracle is
 * machine arithmetic wide enough to be exact for the shape (RT below).
 *
 * Radix: production (2^32) unless -DALDOR_VERIF_BINT_LG_RADIX=k (guarded
 * hook in bigint.c); digits are masked to the radix.
 */
#include "bigint.c"
#include "verif.h"

#ifndef AC
#define AC 2
#endif
#ifndef BC
#define BC 1
#endif
#define LGR ((int) BINT_LG_RADIX)

/* RTW (width of the reference arithmetic) is chosen by props/c11.py so that (AC+BC+1) digits fit */
#ifndef RTW
#define RTW 128
#endif
#if RTW == 32
typedef unsigned int RT;
#elif RTW == 64
typedef unsigned long RT;
#else
typedef unsigned __int128 RT;
#endif
#define RT_BITS ((int)(sizeof(RT) * 8))

static RT mag(BInt b)
{
	RT v = 0; long i;
	for (i = (long) Placec(b) - 1; i >= 0; i--) v = (v << (LGR % RT_BITS)) | Placev(b)[i];
	return v;
}

/* digit slots beyond placec hold arbitrary garbage, as in a block that was used for a longer number before */
unsigned nondet_uint(void);
static void load(struct bint *x, const BIntS *d, int c)
{
	int i;
	x->isNeg = 0; x->placea = NARY; x->placec = c;
	for (i = 0; i < c; i++)    x->placev[i] = d[i] & BINT_RADIX_MASK;
#ifdef V_CBMC
	for (     ; i < NARY; i++) x->placev[i] = nondet_uint() & BINT_RADIX_MASK;
#else
	for (     ; i < NARY; i++) x->placev[i] = (0x9e3779b9u * (i + 1)) & BINT_RADIX_MASK;
#endif
}
#define NORMAL(x)   (Placec(x) == 0 || Placev(x)[Placec(x) - 1] != 0)
#define DIGITS_OK(x, ok) do { Length i_; ok = 1; for (i_ = 0; i_ < Placec(x); i_++) if (Placev(x)[i_] > BINT_RADIX_MASK) ok = 0; } while (0)

/* ---- r = a + b ---- */
V_ENTRY(h_iint_plus, BIntS a[AC]; BIntS b[BC]; int alias;)
{
	struct bint A, B, R; BInt r; RT va, vb; int ok;
	load(&A, in->a, AC); load(&B, in->b, BC); load(&R, in->a, 0);
	V_ASSUME(NORMAL(&A) && NORMAL(&B));
	va = mag(&A); vb = mag(&B);
	r = in->alias ? &A : &R;
	iintPlus(r, &A, &B);
	V_ASSERT(mag(r) == va + vb, "iintPlus: r = a + b");
	V_ASSERT(NORMAL(r), "iintPlus: result has no leading zero digit");
	DIGITS_OK(r, ok); V_ASSERT(ok, "iintPlus: digits below radix");
	V_ASSERT(!IsNeg(r) || in->alias, "iintPlus: sign untouched");
}

/* ---- r = a - b, a >= b ---- */
V_ENTRY(h_iint_minus, BIntS a[AC]; BIntS b[BC]; int alias;)
{
	struct bint A, B, R; BInt r; RT va, vb; int ok;
	load(&A, in->a, AC); load(&B, in->b, BC); load(&R, in->a, 0);
	V_ASSUME(NORMAL(&A) && NORMAL(&B));
	va = mag(&A); vb = mag(&B);
	V_ASSUME(va >= vb);
	r = in->alias ? &A : &R;
	iintMinus(r, &A, &B);
	V_ASSERT(mag(r) == va - vb, "iintMinus: r = a - b");
	V_ASSERT(NORMAL(r), "iintMinus: result has no leading zero digit");
	DIGITS_OK(r, ok); V_ASSERT(ok, "iintMinus: digits below radix");
}

/* ---- r = a * b ---- */
V_ENTRY(h_iint_times, BIntS a[AC]; BIntS b[BC];)
{
	struct bint A, B, R; RT va, vb; int ok;
	load(&A, in->a, AC); load(&B, in->b, BC); load(&R, in->a, 0);
	V_ASSUME(NORMAL(&A) && NORMAL(&B));
	va = mag(&A); vb = mag(&B);
	R.placec = AC + BC;              /* as bintTimes allocates it */
	iintTimes(&R, &A, &B);
	V_ASSERT(mag(&R) == va * vb, "iintTimes: r = a * b");
	V_ASSERT(NORMAL(&R), "iintTimes: result has no leading zero digit");
	DIGITS_OK(&R, ok); V_ASSERT(ok, "iintTimes: digits below radix");
	V_ASSERT(mag(&A) == va && mag(&B) == vb, "iintTimes: operands unchanged");
}

/* ---- r = a * s + c (single digit s, c) ---- */
V_ENTRY(h_iint_timesPlusS, BIntS a[AC]; BIntS s; BIntS c; int alias; int plus;)
{
	struct bint A, R; BInt r; RT va; BIntS s, c; int ok;
	load(&A, in->a, AC); load(&R, in->a, 0);
	V_ASSUME(NORMAL(&A));
	s = in->s & BINT_RADIX_MASK; c = in->c & BINT_RADIX_MASK;
	V_ASSUME(s != 0);                /* s == 0 goes through xintCopyInI (API level) */
	va = mag(&A);
	r = in->alias ? &A : &R;
	if (in->plus) iintTimesPlusS(r, &A, s, c);
	else        { iintTimesS(r, &A, s); c = 0; }
	V_ASSERT(mag(r) == va * s + c, "iintTimes[Plus]S: r = a * s + c");
	V_ASSERT(NORMAL(r), "iintTimes[Plus]S: result has no leading zero digit");
	DIGITS_OK(r, ok); V_ASSERT(ok, "iintTimes[Plus]S: digits below radix");
}

/* ---- q, r = a / s, a % s ---- */
V_ENTRY(h_iint_divideS, BIntS a[AC]; BIntS s; int alias;)
{
	struct bint A, Q; BInt q; RT va; BIntS s, rem = 0; int ok;
	load(&A, in->a, AC); load(&Q, in->a, 0);
	V_ASSUME(NORMAL(&A));
	s = in->s & BINT_RADIX_MASK;
	V_ASSUME(s != 0);
	va = mag(&A);
	q = in->alias ? &A : &Q;
	iintDivideS(q, &rem, &A, s);
	V_ASSERT(rem < s, "iintDivideS: remainder < divisor");
	V_ASSERT(mag(q) * s + rem == va, "iintDivideS: a = q * s + r");
	V_ASSERT(NORMAL(q), "iintDivideS: quotient has no leading zero digit");
	DIGITS_OK(q, ok); V_ASSERT(ok, "iintDivideS: digits below radix");
}

/* ---- Knuth algorithm D: (q, r) = u / v ---- */
V_ENTRY(h_iint_divide, BIntS u[AC]; BIntS v[BC]; int alias;)
{
	struct bint U, V, Q, R; BInt r; RT vu, vv; int ok;
	load(&U, in->u, AC); load(&V, in->v, BC); load(&Q, in->u, 0); load(&R, in->u, 0);
	V_ASSUME(NORMAL(&U) && NORMAL(&V));
	vu = mag(&U); vv = mag(&V);
	Q.placec = (AC >= BC ? AC - BC : 0) + 1;      /* as bintDivide allocates them */
	R.placec = (AC >= BC ? AC : BC) + 1;
	r = in->alias ? &U : &R;
	iintDivide(&Q, r, &U, &V);
	V_ASSERT(mag(r) < vv, "iintDivide: remainder < divisor");
	V_ASSERT(mag(&Q) * vv + mag(r) == vu, "iintDivide: u = q * v + r");
	V_ASSERT(mag(&V) == vv && Placec(&V) == BC, "iintDivide: divisor restored");
	V_ASSERT(NORMAL(&Q), "iintDivide: quotient has no leading zero digit");
	/* For a one-digit divisor iintDivide leaves a zero remainder as the single digit 0;
	 * every caller passes r through xintImmedIfCan, which maps that to the immediate 0
	 * (checked at API level).  Requiring NORMAL(r) here was an over-strong oracle. */
	V_ASSERT(NORMAL(r) || (BC == 1 && Placec(r) == 1), "iintDivide: remainder has no leading zero digit (single 0 allowed for 1-digit divisor)");
	DIGITS_OK(&Q, ok); V_ASSERT(ok, "iintDivide: quotient digits below radix");
	DIGITS_OK(r, ok);  V_ASSERT(ok, "iintDivide: remainder digits below radix");
}

/* ---- r = b * 2^n (n >= 0) or floor(b / 2^-n) ---- */
#ifndef SHIFT_LIM
#define SHIFT_LIM (2 * LGR + 3)
#endif
V_ENTRY(h_iint_shift, BIntS b[BC]; int n; int alias;)
{
	struct bint B, R; BInt r; RT vb, want; long rbitc; int ok;
	load(&B, in->b, BC); load(&R, in->b, 0);
	V_ASSUME(NORMAL(&B));
	vb = mag(&B);
	V_ASSUME(in->n >= -SHIFT_LIM && in->n <= SHIFT_LIM);
	rbitc = (long) bintLength(&B) + in->n;
	V_ASSUME(rbitc > 0);                          /* bintShift returns 0 before calling iintShift otherwise */
	V_ASSUME(rbitc <= RT_BITS && rbitc <= NARY * LGR);
	want = in->n >= 0 ? vb << in->n : vb >> -in->n;
	r = in->alias ? &B : &R;
	iintShift(r, &B, in->n);
	V_ASSERT(mag(r) == want, "iintShift: r = b * 2^n (floor for n < 0)");
	V_ASSERT(NORMAL(r), "iintShift: result has no leading zero digit");
	DIGITS_OK(r, ok); V_ASSERT(ok, "iintShift: digits below radix");
}
