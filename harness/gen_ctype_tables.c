/* Run natively (gcc) by the driver: dumps glibc's C-locale <ctype.h> tables so that the
 * solver sees exactly the classification words and case maps the real process sees
 * (e.g. isdigit('5') == 2048, not 1). */
#include <ctype.h>
#include <stdio.h>
int main(void)
{
	int i;
	const unsigned short *b = *__ctype_b_loc();
	const int *lo = *__ctype_tolower_loc(), *up = *__ctype_toupper_loc();
	printf("static const unsigned short v_ctype_b[384] = {");
	for (i = -128; i < 256; i++) printf("%s%u", i == -128 ? "" : ",", (unsigned) b[i]);
	printf("};\nstatic const int v_ctype_lo[384] = {");
	for (i = -128; i < 256; i++) printf("%s%d", i == -128 ? "" : ",", lo[i]);
	printf("};\nstatic const int v_ctype_up[384] = {");
	for (i = -128; i < 256; i++) printf("%s%d", i == -128 ? "" : ",", up[i]);
	printf("};\n");
	return 0;
}
