/*
 * C18 -- the .ao writer: libAddSection / libPutSection / libClose (libPutHeader, fileMustClose) of the real lib.c
 * under every schedule of failing fwrite / fflush / fseek-free stdio calls on the library stream.
 * Property: if any write or the close failed, libClose does not return normally.
 */
#include "lib.c"
#include "buffer.c"     /* typed static Buffer objects (see storage model below) */
#include "verif.h"
#include "c18_stdio.h"

static FILE *v_handler(FileName fn, IOMode mode)
{
	(void) fn; (void) mode; v_fatal_reached = 1;
#ifdef V_CBMC
	__CPROVER_assume(0);
#else
	printf("REPLAY-PATH-ENDED-IN-REFUSAL\n"); exit(4);
#endif
	return 0;
}
String fnameUnparseStatic(FileName fn)        { (void) fn; return "out.ao"; }
String fnameUnparseStaticWithout(FileName fn) { (void) fn; return "out"; }
void   fnameFree(FileName fn)                 { (void) fn; }
Bool   osDirIsThere(String s)                 { (void) s; return 0; }
void   comsgError(AbSyn ab, Msg msg, ...)     { (void) ab; (void) msg; }
void   comsgFatal(AbSyn ab, Msg msg, ...)     { (void) ab; (void) msg; v_handler(0, 0); }

/* storage model (-DV_NO_STO_STUBS): buffer headers are typed static objects, byte blocks are 256-byte static arrays
 * (the library header is 174 bytes); contents are irrelevant to this property, only the stdio results matter */
static struct buffer v_bufs[4]; static int v_nbuf;
static UByte v_blk[4][256];     static int v_nblk;
MostAlignedType *stoAlloc(unsigned code, ULong size)
{
	(void) code;
	if (size == sizeof(struct buffer)) { V_ASSUME(v_nbuf < 4); return (MostAlignedType *) &v_bufs[v_nbuf++]; }
	V_ASSUME(size <= 256 && v_nblk < 4);
	return (MostAlignedType *) v_blk[v_nblk++];
}
ULong stoSize(Pointer p) { (void) p; return 256; }
MostAlignedType *stoResize(Pointer p, ULong size) { V_ASSUME(size <= 256); return (MostAlignedType *) p; }
void stoFree(Pointer p) { (void) p; }

static struct lib v_lib;
static struct fileName v_fn = { { "", "out", "ao" } };

V_ENTRY(h_lib_write_close, unsigned char fail[NSCHED]; unsigned char payload[4];)
{
	Lib lib = &v_lib; Buffer buf; int i;
	for (i = 0; i < NSCHED; i++) v_sched[i] = in->fail[i];
	v_pos = 0; v_io_failed = 0; v_open = 0;
	for (i = 0; i < NSTREAM; i++) { v_err_sticky[i] = 0; v_isopen[i] = 0; }
	fileSetHandler(v_handler);
	/* what libWrite does, minus registration */
	lib->name = &v_fn; lib->rdOnly = false; lib->isOutput = true; lib->offset = 0;
	lib->file = fileWubOpen(&v_fn);
	libNewHeader(lib);
	/* one section written through the real section writer */
	buf = libAddSection(lib, LIB_Id);
	for (i = 0; i < 4; i++) bufPutByte(buf, in->payload[i]);
	libPutSection(lib, LIB_Id, buf);
	libClose(lib);
	V_ASSERT(!v_io_failed, "libClose (-Fao): returned normally although a write or close on the .ao file failed");
	V_ASSERT(v_open == 0, "libClose: the library stream is closed on return");
}
