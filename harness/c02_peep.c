/*
 * C02 -- optimisation never changes behaviour: the algebraic simplifier on builtin-call expressions
 * (of_peep.c: peepExpr / peepBCall / peepBinaryBCall / peepUnaryBCall / peepNegate / peepAdditiveOp /
 * peepTimesOp / peepMakeUnaryOp ...; file-local, so of_peep.c is #included).
 *
 * An expression tree of CONCRETE shape (-DSHAPE, -DOP, -DOP2, -DTYPE: all shapes/operators are enumerated by
 * props/c02.py) is built from static nodes; its leaves are parameter references with SYMBOLIC values and
 * constants with SYMBOLIC values.  The real peepExpr rewrites it; a small evaluator (operator semantics = the
 * definitions used for C04) computes the value of the original and of the rewritten tree under the same
 * valuation.  Property: the two values are equal for every valuation.
 */
/* foam.c's generic tree walkers (foamHasSideEffect, foamEqual: format-string driven recursion) make symex explode
 * (1700 recursion unwindings for a 3-node tree).  For the trees built here their answers are known by construction:
 * every operand is a parameter reference, a constant or a builtin call without side effects; equality is decided on
 * leaves.  They are replaced by these two functions for of_peep.c only -- an assumption of this slice. */
#define foamHasSideEffect v_hasSideEffect
#define foamEqual         v_equal
#include "axlobs.h"
static Bool v_hasSideEffect(Foam f) { (void) f; return false; }
static Bool v_equal(Foam a, Foam b)
{
	if (foamTag(a) != foamTag(b)) return false;
	if (foamTag(a) == FOAM_Par) return a->foamPar.index == b->foamPar.index;
	if (foamTag(a) < FOAM_DATA_LIMIT) return a->foamGen.argv[0].data == b->foamGen.argv[0].data;
	return false;      /* compound operands are never reported equal: fewer rewrites, never a wrong one */
}
#include "of_peep.c"
#undef foamHasSideEffect
#undef foamEqual
#include "verif.h"
#include <limits.h>

#ifndef OP
#define OP  FOAM_BVal_SIntPlus
#endif
#ifndef OP2
#define OP2 FOAM_BVal_SIntNegate
#endif
#ifndef TYPE
#define TYPE FOAM_SInt
#endif
#ifndef SHAPE
#define SHAPE 1
#endif
#define MEMBER_DATA(n) (n).foamGen.argv[0].data

static long v_par[2];
static long v_eval_failed;

static long ev(Foam f, int depth)
{
	long a = 0, b = 0;
	if (depth > 6) { v_eval_failed = 1; return 0; }
	switch (foamTag(f)) {
	case FOAM_SInt: case FOAM_Bool: case FOAM_Char: case FOAM_HInt: case FOAM_Byte:
		return MEMBER_DATA(*f);
	case FOAM_Par:
		return v_par[f->foamPar.index & 1];
	case FOAM_BCall:
		if (foamArgc(f) >= 2) a = ev(f->foamBCall.argv[0], depth + 1);
		if (foamArgc(f) >= 3) b = ev(f->foamBCall.argv[1], depth + 1);
		switch (f->foamBCall.op) {
		case FOAM_BVal_BoolFalse: return 0;
		case FOAM_BVal_BoolTrue:  return 1;
		case FOAM_BVal_BoolNot:   return !a;
		case FOAM_BVal_BoolAnd:   return a && b;
		case FOAM_BVal_BoolOr:    return a || b;
		case FOAM_BVal_BoolEQ: case FOAM_BVal_CharEQ: case FOAM_BVal_SIntEQ: return a == b;
		case FOAM_BVal_BoolNE: case FOAM_BVal_CharNE: case FOAM_BVal_SIntNE: return a != b;
		case FOAM_BVal_CharLT: case FOAM_BVal_SIntLT: return a < b;
		case FOAM_BVal_CharLE: case FOAM_BVal_SIntLE: return a <= b;
		case FOAM_BVal_SIntIsZero: return a == 0;
		case FOAM_BVal_SIntIsNeg:  return a < 0;
		case FOAM_BVal_SIntIsPos:  return a > 0;
		case FOAM_BVal_SIntNegate: return (long)(0UL - (unsigned long) a);
		case FOAM_BVal_SIntPrev:   return (long)((unsigned long) a - 1UL);
		case FOAM_BVal_SIntNext:   return (long)((unsigned long) a + 1UL);
		case FOAM_BVal_SIntPlus:   return (long)((unsigned long) a + (unsigned long) b);
		case FOAM_BVal_SIntMinus:  return (long)((unsigned long) a - (unsigned long) b);
		case FOAM_BVal_SIntTimes:  return (long)((unsigned long) a * (unsigned long) b);
		case FOAM_BVal_SIntShiftUp:
			if (b < 0 || b > 63) { v_eval_failed = 1; return 0; }
			return (long)((unsigned long) a << b);
		default: v_eval_failed = 1; return 0;
		}
	default:
		v_eval_failed = 1; return 0;
	}
}

/* ---- static nodes (constant tags / operators / structure, symbolic payloads) ---- */
static union foam P0 = { .foamPar = { .hdr = { .tag = FOAM_Par, .argc = 1 }, .index = 0 } };
static union foam P1 = { .foamPar = { .hdr = { .tag = FOAM_Par, .argc = 1 }, .index = 1 } };
static union foam P0b = { .foamPar = { .hdr = { .tag = FOAM_Par, .argc = 1 }, .index = 0 } };   /* a second reference to Par 0 */
static union foam K  = { .foamSInt = { .hdr = { .tag = TYPE, .argc = 1 } } };

#if SHAPE == 1        /* OP(P0, P1) */
static union foam T  = { .foamBCall = { .hdr = { .tag = FOAM_BCall, .argc = 3 }, .op = OP, .argv = { &P0, &P1 } } };
#elif SHAPE == 2      /* OP(P0, K) */
static union foam T  = { .foamBCall = { .hdr = { .tag = FOAM_BCall, .argc = 3 }, .op = OP, .argv = { &P0, &K } } };
#elif SHAPE == 3      /* OP(K, P0) */
static union foam T  = { .foamBCall = { .hdr = { .tag = FOAM_BCall, .argc = 3 }, .op = OP, .argv = { &K, &P0 } } };
#elif SHAPE == 4      /* OP(P0, P0) */
static union foam T  = { .foamBCall = { .hdr = { .tag = FOAM_BCall, .argc = 3 }, .op = OP, .argv = { &P0, &P0b } } };
#elif SHAPE == 5      /* OP(OP2(P0)) : unary of unary */
static union foam U  = { .foamBCall = { .hdr = { .tag = FOAM_BCall, .argc = 2 }, .op = OP2, .argv = { &P0 } } };
static union foam T  = { .foamBCall = { .hdr = { .tag = FOAM_BCall, .argc = 2 }, .op = OP, .argv = { &U } } };
#elif SHAPE == 6      /* BoolNot(OP(P0, P1)) */
static union foam U  = { .foamBCall = { .hdr = { .tag = FOAM_BCall, .argc = 3 }, .op = OP, .argv = { &P0, &P1 } } };
static union foam T  = { .foamBCall = { .hdr = { .tag = FOAM_BCall, .argc = 2 }, .op = FOAM_BVal_BoolNot, .argv = { &U } } };
#elif SHAPE == 7      /* OP(OP2(P0), P1) : e.g. (-a) + b */
static union foam U  = { .foamBCall = { .hdr = { .tag = FOAM_BCall, .argc = 2 }, .op = OP2, .argv = { &P0 } } };
static union foam T  = { .foamBCall = { .hdr = { .tag = FOAM_BCall, .argc = 3 }, .op = OP, .argv = { &U, &P1 } } };
#elif SHAPE == 8      /* OP(P0, OP2(P1)) : e.g. a - (-b) */
static union foam U  = { .foamBCall = { .hdr = { .tag = FOAM_BCall, .argc = 2 }, .op = OP2, .argv = { &P1 } } };
static union foam T  = { .foamBCall = { .hdr = { .tag = FOAM_BCall, .argc = 3 }, .op = OP, .argv = { &P0, &U } } };
#endif

#ifndef FAST
#define FAST 0
#endif
V_ENTRY(h_peep, long p0; long p1; long k;)
{
	Foam r; Bool changed = false; long before, after, p0 = in->p0, p1 = in->p1, k = in->k;
	if (TYPE == FOAM_Bool) { p0 &= 1; p1 &= 1; k &= 1; }
	if (TYPE == FOAM_Char) { p0 &= 0xff; p1 &= 0xff; k &= 0xff; }
	v_par[0] = p0; v_par[1] = p1; MEMBER_DATA(K) = k;
	peepBValTbl = FAST ? &foamBValOpInfoTableFast[0] : &foamBValOpInfoTableSlow[0];   /* concrete per query */
	v_eval_failed = 0;
	before = ev(&T, 0);
	V_ASSERT(!v_eval_failed, "harness evaluator covers the original expression");
	r = peepExpr(&T, &changed);
	after = ev(r, 0);
	V_ASSERT(!v_eval_failed, "the rewritten expression uses only operators the evaluator knows (and in-range shift counts)");
	V_ASSERT(before == after, "peephole rewrite preserves the value of the expression for every valuation");
}
