/*
 * C17 -- damaged library files are refused, never silently used: the .ao header and section reader (lib.c).
 *
 * The file is a SYMBOLIC byte array of SYMBOLIC length (0..FLEN); fread/fseek/ftell honour short reads exactly as
 * ISO C specifies.  The real lib.c (#included: libGetSection is file-local) and buffer.c run on it.
 *
 *   h_lib_header : libGetHeader on an arbitrary file.  Obligations: no out-of-bounds access / bug() / assert inside
 *                  the reader; a file shorter than the header is refused (an error is recorded); if the header is
 *                  ACCEPTED (no error recorded) every section it describes lies inside the file.
 *   h_lib_section: libGetHeader, then libGetSection of an arbitrary section name, whatever the header check said
 *                  (the compiler only records the error and goes on).  Obligations: memory safety; the buffer that is
 *                  handed to the decoders holds only bytes that were actually read from the file.
 */
#include "lib.c"
#include "verif.h"

#ifndef FLEN
#define FLEN 200
#endif

static unsigned char v_file[FLEN];
static unsigned long v_len, v_pos;
static FILE v_stream;
static int  v_errors;            /* comsgError count */
static unsigned long v_last_short;   /* bytes NOT delivered by the most recent fread */

int fseek(FILE *f, long off, int whence)
{
	(void) f;
	if (whence == SEEK_SET) v_pos = (unsigned long) off;
	return 0;
}
long ftell(FILE *f) { (void) f; return (long) v_pos; }
size_t fread(void *p, size_t sz, size_t n, FILE *f)
{
	unsigned long want = sz * n, have = v_pos < v_len ? v_len - v_pos : 0, got = want < have ? want : have, i;
	(void) f;
	for (i = 0; i < FLEN; i++) if (i < got) ((unsigned char *) p)[i] = v_file[v_pos + i];
	v_pos += got;
	v_last_short = want - got;
	return sz ? got / sz : 0;
}

/* diagnostics */
void comsgError(AbSyn ab, Msg msg, ...) { (void) ab; (void) msg; v_errors++; }
void comsgFatal(AbSyn ab, Msg msg, ...)
{
	(void) ab; (void) msg; v_fatal_reached = 1;
#ifdef V_CBMC
	__CPROVER_assume(0);
#else
	printf("REPLAY-PATH-ENDED-IN-REFUSAL\n"); exit(4);
#endif
}


String fnameUnparseStaticWithout(FileName fn) { (void) fn; return "lib"; }

/* internal-error reports are keyed by their message so that known_findings.txt can name the site */
void bug(String fmt, ...)
{
	v_bug_reached = 1;
	if (strcmp(fmt, "Index[Name[i]] != i") == 0)
		V_ASSERT(0, "libChkHeader: bug(\"Index[Name[i]] != i\") not reached on a damaged header");
	else
		V_ASSERT(0, "bug() not reached (other site)");
#ifdef V_CBMC
	__CPROVER_assume(0);
#else
	exit(4);
#endif
}

/* string block for the raw bytes */
static unsigned char v_garbage[FLEN];     /* what a fresh block happens to contain: symbolic input, so that replays are exact */
String strAlloc(Length n)
{
	String s = (String) stoAlloc(OB_String, n + 1); unsigned long i;
	for (i = 0; i < FLEN; i++) if (i < n) s[i] = (char) v_garbage[i];
	return s;
}

static struct lib v_lib;
static void load(const unsigned char *bytes, unsigned long len, const unsigned char *garbage)
{
	unsigned long i;
	V_ASSUME(len <= FLEN);
	for (i = 0; i < FLEN; i++) { v_file[i] = bytes[i]; v_garbage[i] = garbage[i]; }
	v_len = len; v_pos = 0; v_errors = 0;
	v_lib.file = &v_stream; v_lib.offset = 0;
}

V_ENTRY(h_lib_header, unsigned char bytes[FLEN]; unsigned long len; unsigned char garbage[FLEN];)
{
	Lib lib = &v_lib; int i;
	load(in->bytes, in->len, in->garbage);
	libGetHeader(lib);
	if (in->len < libHdrSize)
		V_ASSERT(v_errors > 0, "a file shorter than the library header is refused (error recorded)");
	if (v_errors == 0) {
		V_ASSERT(lib->hdr.numSect <= LIB_INDEX_LIMIT, "accepted header: section count within the table");
		for (i = 0; i < LIB_INDEX_LIMIT; i++) if (i < lib->hdr.numSect) {
			V_ASSERT(libIndexSect(lib, i).offset + libIndexSect(lib, i).length <= in->len,
			         "accepted header: every section lies inside the file");
			V_ASSERT(libIndexSect(lib, i).offset == (i == 0 ? (Offset) libHdrSize
			         : libIndexSect(lib, i - 1).offset + libIndexSect(lib, i - 1).length),
			         "accepted header: sections are contiguous, the first one starts right after the header");
			V_ASSERT(libIndexName(lib, i) < LIB_NAME_LIMIT && libNameIndex(lib, libIndexName(lib, i)) == i,
			         "accepted header: section names are valid and the name->index map is consistent");
		}
	}
}

V_ENTRY(h_lib_section, unsigned char bytes[FLEN]; unsigned long len; int name; unsigned char garbage[FLEN];)
{
	Lib lib = &v_lib; Buffer buf;
	load(in->bytes, in->len, in->garbage);
	libGetHeader(lib);
	V_ASSUME(in->name >= LIB_NAME_START && in->name < LIB_NAME_LIMIT);
	buf = libGetSection(lib, (LibSectName) in->name, false);
	if (buf)
		V_ASSERT(v_last_short == 0, "libGetSection: the section buffer handed to the decoders was completely read from the file");
}
