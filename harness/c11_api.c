/*
 * C11 -- big-integer arithmetic is exact: API level (bintXxx/xintXxx of bigint.c)
 * at the production radix 2^32.
 *
 * Operand representation is CONCRETE per query (-DKA, -DKB), its value is
 * SYMBOLIC:
 *   kind 0        immediate: any value of the immediate range (62 bits + sign)
 *   kind 1 / 2    stored, 2 digits, positive / negative
 *   kind 3 / 4    stored, 3 digits, positive / negative
 * Stored operands satisfy the representation invariant documented at the top
 * of bigint.c (Placec > 0, top digit != 0, value outside the immediate range).
 * The oracle is 128-bit machine arithmetic.
 */
#include "bigint.c"
#include "verif.h"

#ifndef KA
#define KA 0
#endif
#ifndef KB
#define KB 0
#endif

/*
 * Storage model for this harness (-DV_NO_STO_STUBS): a big integer block is a
 * fresh heap object of type struct bint (NARY = 10 digit slots; larger requests
 * are outside the claim), so that CBMC sees typed field accesses instead of
 * byte-level reinterpretation of an untyped block (which produced formulas of
 * 6.6 M variables for one addition).  Other blocks are 64-byte arrays.  Freed
 * blocks are not reused.
 */
MostAlignedType *stoAlloc(unsigned code, ULong size)
{
	if (code == OB_BInt) {
		struct bint *b;
		V_ASSUME(size <= sizeof(struct bint));
		b = (struct bint *) malloc(sizeof(struct bint));
#ifdef V_CBMC
		__CPROVER_assume(b != 0);
#endif
		return (MostAlignedType *) b;
	}
	else {
		unsigned short *p;
		V_ASSUME(size <= 64);
		p = (unsigned short *) malloc(64);
#ifdef V_CBMC
		__CPROVER_assume(p != 0);
#endif
		return (MostAlignedType *) p;
	}
}
void stoFree(Pointer p) { (void) p; }

unsigned nondet_uint(void);
typedef __int128 s128;
typedef unsigned __int128 u128;

#define MAXD 5
static u128 mag(BInt b)
{
	u128 v = 0; int i;
	V_ASSERT(Placec(b) <= MAXD, "digit count of a value within the harness bound (5 digits)");
	for (i = MAXD - 1; i >= 0; i--)
		if ((Length) i < Placec(b)) v = (v << 32) | Placev(b)[i];
	return v;
}

/* bit length of a 128-bit magnitude, 0 for 0 */
static unsigned long len128(u128 m)
{
	unsigned long hi = (unsigned long)(m >> 64), lo = (unsigned long) m;
	if (hi) return 128 - __builtin_clzl(hi);
	if (lo) return 64 - __builtin_clzl(lo);
	return 0;
}

/* value of a BInt of at most 3 digits (or immediate) */
static s128 val(BInt b)
{
	if (IsImmed(b)) return (s128) BIntToInt(b);
	return IsNeg(b) ? -(s128) mag(b) : (s128) mag(b);
}

#define IMM_MAX ((s128) INT_MAX_IMMED)
#define IMM_MIN ((s128) INT_MIN_IMMED)

/* the representation invariant every bintXxx result must satisfy */
static int normal(BInt b)
{
	s128 v;
	if (IsImmed(b)) return INT_IS_IMMED(BIntToInt(b));
	if (Placec(b) == 0 || Placec(b) > Placea(b)) return 0;
	if (Placev(b)[Placec(b) - 1] == 0) return 0;
	if (Placec(b) >= 4) return 1;
	v = val(b);
	return v > IMM_MAX || v < IMM_MIN;
}

struct opnd { long imm; BIntS d[3]; };

static BInt mk(int kind, const struct opnd *o, struct bint *st)
{
	int c, i;
	if (kind == 0 || kind == 7 || kind == 8) {
		V_ASSUME(INT_IS_IMMED(o->imm));
		if (kind == 7) V_ASSUME(o->imm >= 0);      /* sign split of immediates: lets the recursion bound be exact */
		if (kind == 8) V_ASSUME(o->imm < 0);
		return IntToBInt(o->imm);
	}
	if (kind == 5 || kind == 6) {
		/* a small value in stored form, exactly what xintStore() makes of an immediate:
		 * one digit (possibly 0) or two digits with a non-zero top digit */
		st->isNeg = (kind == 6);
		st->placea = NARY;
		for (i = 0; i < NARY; i++) st->placev[i] = 0;
		st->placev[0] = o->d[0]; st->placev[1] = o->d[1];
		st->placec = o->d[1] ? 2 : 1;
		V_ASSUME(o->d[1] < (1u << 30));                  /* |value| < 2^62 */
		V_ASSUME(!(kind == 6 && o->d[0] == 0 && o->d[1] == 0));
		return st;
	}
	c = (kind <= 2) ? 2 : 3;
	st->isNeg = (kind == 2 || kind == 4);
	st->placea = NARY; st->placec = c;
	for (i = 0; i < c; i++) st->placev[i] = o->d[i];
#ifdef V_CBMC
	for (; i < NARY; i++)   st->placev[i] = nondet_uint();       /* garbage beyond placec */
#else
	for (; i < NARY; i++)   st->placev[i] = 0x9e3779b9u * (i + 1);
#endif
	V_ASSUME(st->placev[c - 1] != 0);
	if (c == 2) V_ASSUME(st->placev[1] >= (1u << 30));   /* |value| >= 2^62: not representable immediately */
	return st;
}

/* ---- construction and conversion ---- */
V_ENTRY(h_new, long n;)
{
	BInt b = bintNew(in->n), c, d;
	V_ASSERT(val(b) == (s128) in->n, "bintNew(n) has value n");
	V_ASSERT(normal(b), "bintNew: result normalised");
	V_ASSERT((bintIsSmall(b) != 0) == (in->n >= INT_MIN_IMMED && in->n <= INT_MAX_IMMED), "bintIsSmall iff in immediate range");
	if (bintIsSmall(b)) V_ASSERT(bintSmall(b) == in->n, "bintSmall(bintNew(n)) == n");
	c = xintStoreI(in->n);
	V_ASSERT(!IsImmed(c) && val(c) == (s128) in->n, "xintStoreI(n) is stored and has value n");
	V_ASSERT(Placec(c) > 0 ? Placev(c)[Placec(c) - 1] != 0 || in->n == 0 : 1, "xintStoreI: no leading zero digit");
	d = xintImmedIfCan(c);
	V_ASSERT(val(d) == (s128) in->n && normal(d), "xintImmedIfCan keeps the value and normalises");
	V_ASSERT((bintIsNeg(b) != 0) == (in->n < 0) && (bintIsZero(b) != 0) == (in->n == 0) && (bintIsPos(b) != 0) == (in->n > 0),
	         "bintIsNeg/IsZero/IsPos");
	V_ASSERT(bintLength(b) == (in->n == 0 ? 1 : 64 - __builtin_clzl(in->n < 0 ? -(unsigned long) in->n : (unsigned long) in->n)),
	         "bintLength(bintNew(n)) = bit length of |n| (1 for 0)");
}

/* xintImmedIfCan on any stored value of <= 3 digits without leading zero */
V_ENTRY(h_immedIfCan, BIntS d[3]; int c; int neg;)
{
	struct bint S; BInt r; s128 v; int i;
	V_ASSUME(in->c >= 0 && in->c <= 3);
	S.isNeg = in->neg != 0; S.placea = NARY; S.placec = in->c;
	for (i = 0; i < 3; i++) S.placev[i] = in->d[i];
	V_ASSUME(in->c == 0 || S.placev[in->c - 1] != 0);
	v = val(&S);
	r = xintImmedIfCan(&S);
	V_ASSERT(val(r) == v, "xintImmedIfCan keeps the value");
	V_ASSERT(normal(r), "xintImmedIfCan: immediate iff in immediate range");
}

/* ---- comparison, negate, abs ---- */
V_ENTRY(h_cmp, struct opnd a; struct opnd b;)
{
	struct bint SA, SB; BInt a = mk(KA, &in->a, &SA), b = mk(KB, &in->b, &SB), r;
	s128 va = val(a), vb = val(b);
	V_ASSERT((bintEQ(a, b) != 0) == (va == vb), "bintEQ");
	V_ASSERT((bintLT(a, b) != 0) == (va <  vb), "bintLT");
	V_ASSERT((bintGT(a, b) != 0) == (va >  vb), "bintGT");
	r = bintNegate(a);
	V_ASSERT(val(r) == -va && normal(r), "bintNegate");
	r = bintAbs(a);
	V_ASSERT(val(r) == (va < 0 ? -va : va) && normal(r), "bintAbs");
	V_ASSERT(val(a) == va, "operand unchanged by negate/abs");
	V_ASSERT((bintIsNeg(a) != 0) == (va < 0) && (bintIsZero(a) != 0) == (va == 0) && (bintIsPos(a) != 0) == (va > 0), "bintIsNeg/IsZero/IsPos");
}

/* ---- a + b, a - b ---- */
V_ENTRY(h_plus, struct opnd a; struct opnd b;)
{
	struct bint SA, SB; BInt a = mk(KA, &in->a, &SA), b = mk(KB, &in->b, &SB), r;
	s128 va = val(a), vb = val(b);
	r = bintPlus(a, b);
	V_ASSERT(val(r) == va + vb, "bintPlus: a + b");
	V_ASSERT(normal(r), "bintPlus: result normalised");
	V_ASSERT(val(a) == va && val(b) == vb, "bintPlus: operands unchanged");
}

V_ENTRY(h_minus, struct opnd a; struct opnd b;)
{
	struct bint SA, SB; BInt a = mk(KA, &in->a, &SA), b = mk(KB, &in->b, &SB), r;
	s128 va = val(a), vb = val(b);
	r = bintMinus(a, b);
	V_ASSERT(val(r) == va - vb, "bintMinus: a - b");
	V_ASSERT(normal(r), "bintMinus: result normalised");
	V_ASSERT(val(a) == va && val(b) == vb, "bintMinus: operands unchanged");
}

/* ---- a * b (result <= 4 digits: compare magnitudes in 128 bits and signs) ---- */
V_ENTRY(h_times, struct opnd a; struct opnd b;)
{
	struct bint SA, SB; BInt a = mk(KA, &in->a, &SA), b = mk(KB, &in->b, &SB), r;
	s128 va = val(a), vb = val(b);
	u128 ma = va < 0 ? -(u128) va : (u128) va, mb = vb < 0 ? -(u128) vb : (u128) vb, mr;
	r = bintTimes(a, b);
	mr = IsImmed(r) ? (BIntToInt(r) < 0 ? -(u128) BIntToInt(r) : (u128) BIntToInt(r)) : mag(r);
	V_ASSERT(mr == ma * mb, "bintTimes: |a * b|");
	V_ASSERT(mr == 0 || ((bintIsNeg(r) != 0) == ((va < 0) != (vb < 0))), "bintTimes: sign");
	V_ASSERT(normal(r), "bintTimes: result normalised");
	V_ASSERT(val(a) == va && val(b) == vb, "bintTimes: operands unchanged");
}

/* ---- a mod b (bintMod: |a| mod |b| with the sign of a; dispatch between the single-word Horner
 *      routine bintModi and bintDivide).  xxModDouble (dword.c, double-word by word remainder) is
 *      replaced by its contract below. ---- */
#ifdef V_MOD
ULong xxModDouble(ULong hi, ULong lo, ULong d)
{
	V_ASSERT(d != 0, "xxModDouble: divisor non-zero");
	V_ASSERT(hi < d, "xxModDouble: high word below the divisor (quotient fits one word)");
	if (hi == 0) return lo % d;
	return (ULong) (((((u128) hi) << 64) | lo) % d);
}

V_ENTRY(h_mod, struct opnd a; struct opnd b;)
{
	struct bint SA, SB; BInt a = mk(KA, &in->a, &SA), b = mk(KB, &in->b, &SB), r;
	s128 va = val(a), vb = val(b);
	u128 ma = va < 0 ? -(u128) va : (u128) va, mb = vb < 0 ? -(u128) vb : (u128) vb, mr, want;
	V_ASSUME(vb != 0);
#ifdef V_MOD_LEN64
	V_ASSUME(mb >> 63 != 0);              /* modulus of exactly 64 bits */
#endif
#ifdef V_MOD_LEN63
	V_ASSUME(mb >> 63 == 0);              /* modulus of at most 63 bits */
#endif
	r = bintMod(a, b);
	mr = IsImmed(r) ? (BIntToInt(r) < 0 ? -(u128) BIntToInt(r) : (u128) BIntToInt(r)) : mag(r);
#if KA <= 2 && KB <= 2
	want = (u128) ((ULong) ma % (ULong) mb);      /* both magnitudes below 2^64 */
#else
	want = ma % mb;
#endif
	V_ASSERT(mr == want, "bintMod: |a mod b| == |a| mod |b|");
	V_ASSERT(mr == 0 || ((bintIsNeg(r) != 0) == (va < 0)), "bintMod: result carries the sign of the dividend");
	V_ASSERT(normal(r), "bintMod: result normalised");
	V_ASSERT(val(b) == vb, "bintMod: modulus unchanged");
}
#endif

/* ---- length, bit ---- */
V_ENTRY(h_lenbit, struct opnd a; unsigned long ix;)
{
	struct bint SA; BInt a = mk(KA, &in->a, &SA);
	s128 va = val(a); u128 m = va < 0 ? -(u128) va : (u128) va;
	unsigned long len = len128(m), want;
	V_ASSERT(bintLength(a) == (m == 0 ? 1 : len), "bintLength = bit length of |a| (1 for 0)");
	V_ASSUME(in->ix < 200);
	want = in->ix < 128 ? (unsigned long)((m >> in->ix) & 1) : 0;
	V_ASSERT((bintBit(a, in->ix) != 0) == (want != 0), "bintBit(a, ix) = bit ix of |a|");
}

/* ---- shifts ---- */
#ifndef NLIM
#define NLIM 70
#endif
V_ENTRY(h_shift, struct opnd a; int n;)
{
	struct bint SA; BInt a = mk(KA, &in->a, &SA), r;
	s128 va = val(a); u128 m = va < 0 ? -(u128) va : (u128) va, want, mr;
	unsigned long len = len128(m);
	V_ASSUME(in->n >= -NLIM && in->n <= NLIM);
	V_ASSUME((long) len + in->n <= 127);
	/* documented: b * 2^n; for n < 0 the magnitude is shifted down (truncation toward zero) */
	want = in->n >= 0 ? m << in->n : m >> -in->n;
	r = bintShift(a, in->n);
	mr = IsImmed(r) ? (BIntToInt(r) < 0 ? -(u128) BIntToInt(r) : (u128) BIntToInt(r)) : mag(r);
	V_ASSERT(mr == want, "bintShift: |a| * 2^n, truncated toward zero for n < 0");
	V_ASSERT(mr == 0 || ((bintIsNeg(r) != 0) == (va < 0)), "bintShift: sign kept");
	V_ASSERT(normal(r), "bintShift: result normalised");
}

/* low n bits (builtin BIntShiftRem; util.c uses n = 30) of a non-negative a */
V_ENTRY(h_shiftrem, struct opnd a; int n;)
{
	struct bint SA; BInt a = mk(KA, &in->a, &SA), r;
	s128 va = val(a); u128 m = (u128) va;
	V_ASSUME(va >= 0);
	V_ASSUME(in->n >= 0 && in->n <= 100);
	r = bintShiftRem(a, in->n);
	V_ASSERT(val(r) == (s128)(m & ((((u128) 1) << in->n) - 1)), "bintShiftRem(a, n) = a mod 2^n (a >= 0)");
	V_ASSERT(normal(r), "bintShiftRem: result normalised");
}

/* ---- 16-bit digit export / import used when big integers are written to .ao files ---- */
V_ENTRY(h_placevS, struct opnd a;)
{
	struct bint SA; BInt a = mk(KA, &in->a, &SA), r;
	s128 va = val(a); int size; U16 *data;
	bintToPlacevS(a, &size, &data);
	V_ASSERT(size >= 1 && size <= 6, "bintToPlacevS: size within 1..6 for <= 3 digits");
	V_ASSERT(data[size - 1] != 0 || va == 0, "bintToPlacevS: no leading zero halfword");
	r = bintFrPlacevS(va < 0, size, data);
	V_ASSERT(val(r) == va, "bintFrPlacevS(bintToPlacevS(a)) == a");
	V_ASSERT(normal(r), "bintFrPlacevS: result normalised");
}
