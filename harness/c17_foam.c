/*
 * C17 -- the FOAM byte-code decoder on arbitrary bytes (foam.c:foamFrBuffer, buffer.c getters).
 * The buffer is a SYMBOLIC byte array of symbolic length 1..NB, as libGetSection would hand it over.
 * Obligations: no out-of-bounds access (tables, buffer, allocated nodes), no internal assertion / bug() /
 * abort, no allocation larger than the input could justify, termination within the nesting bound.
 */
#include "axlgen.h"
#include "buffer.h"
#include "foam.h"
#include "store.h"
#include "strops.h"
#include "verif.h"
#include <string.h>

#ifndef NB
#define NB 8
#endif

String strAlloc(Length n)
{
	V_ASSERT(n <= 4 * NB, "decoder does not allocate a string longer than the whole input could hold");
	return (String) stoAlloc(OB_String, n + 1);
}

V_ENTRY(h_foam_decode, unsigned char bytes[NB]; unsigned len;)
{
	static unsigned char data[NB];
	Buffer buf; Foam f; unsigned i;
	V_ASSUME(in->len >= 1 && in->len <= NB);
	for (i = 0; i < NB; i++) data[i] = in->bytes[i];
	buf = bufCapture((String) data, in->len);
	f = foamFrBuffer(buf);
	V_ASSERT(f != 0, "foamFrBuffer returns a node");
	V_ASSERT(bufPosition(buf) <= in->len, "decoder did not read past the end of the section");
}
