/*
 * C07 -- total on arbitrary source text: the separator clean-up of the linearizer (linear.c:linXSep, file-local).
 * A token list of 0..NTOK tokens with SYMBOLIC tags (any token tag; in particular any mix of ';' and other tokens)
 * is handed to the real linXSep.  Obligations: no NULL / out-of-bounds access; the result is a sub-list of the input
 * that does not start with ';' .
 */
#include "linear.c"
#include "verif.h"

#ifndef NTOK
#define NTOK 3
#endif
static struct token v_tok[NTOK];
static struct TokenListCons v_cell[NTOK];

/* list primitive used by linXSep: free the cells from l up to (not including) end, return end */
static TokenList v_freeDeeplyTo(TokenList l, TokenList end, void (*f)(Token)) { (void) l; (void) f; return end; }
static struct Token_listOpsStruct v_tokops = { .FreeDeeplyTo = v_freeDeeplyTo };
struct Token_listOpsStruct const *Token_listPointer = &v_tokops;
void tokFree(Token t) { (void) t; }

V_ENTRY(h_linxsep, int n; unsigned char tag[NTOK];)
{
	TokenList tl, r; int i;
	V_ASSUME(in->n >= 0 && in->n <= NTOK);
	for (i = 0; i < NTOK; i++) {
		V_ASSUME(in->tag[i] >= TK_START && in->tag[i] < TK_LIMIT);
		v_tok[i].tag = in->tag[i];
		v_cell[i].first = &v_tok[i];
		v_cell[i].rest  = (i + 1 < in->n) ? &v_cell[i + 1] : 0;
	}
	tl = in->n ? &v_cell[0] : 0;
	r = linXSep(tl);
	V_ASSERT(r == 0 || !tokIs(car(r), DontPileSep), "linXSep: the result does not start with a separator");
	if (r) {
		int found = 0;
		for (i = 0; i < NTOK; i++) if (r == &v_cell[i]) found = 1;
		V_ASSERT(found, "linXSep: the result is a suffix of the input list");
	}
}
