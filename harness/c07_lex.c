/*
 * C07 -- the compiler is total on arbitrary source text: lexical kernels.
 * Arbitrary NUL-terminated byte strings (every byte value 0x01..0xFF) go through the real keyword look-up
 * (token.c: keyInit, keyTag, keyLongest), the line-continuation test of the interactive loop
 * (scan.c: scanIsContinued, several lines in sequence since it keeps state) and -- from include.c, whose
 * helpers are file-local -- the directive test and indentation computation.
 * Obligations: no out-of-bounds access, no internal assertion / bug(); keyTag agrees with a direct search
 * of the keyword table; the indentation result is the column of the first non-blank character.
 */
#include "axlobs.h"
#ifdef V_INCLUDE_TOKEN_C
#include "token.c"      /* linking token.c as a separate unit trips a CBMC invariant (incomplete-array extern) */
#else
#include "token.h"
#endif
#include "scan.h"
#include "verif.h"
#include <string.h>

#ifndef SLEN
#define SLEN 5
#endif

#ifdef V_INCLUDE_TOKEN_C
/* symbol interning is outside the unit: an opaque non-null handle */
static char v_symobj;
Symbol symProbe(String s, int flags) { (void) s; (void) flags; return (Symbol) &v_symobj; }
V_ENTRY(h_key, char s[SLEN + 1];)
{
	char buf[SLEN + 1]; int i; TokenTag t, l;
	for (i = 0; i < SLEN; i++) buf[i] = in->s[i];
	buf[SLEN] = 0;
#ifdef FIRST
	buf[0] = (char) FIRST;      /* first byte concrete per query (all 255 values are enumerated): the keyword table is then
	                             * searched from a concrete start instead of through a symbolic index over 165 string literals */
#endif
	keyInit();
	t = keyTag(buf);
	V_ASSERT(t <= TK_LIMIT, "keyTag returns a token tag or TK_LIMIT");
	if (t != TK_LIMIT) V_ASSERT(strcmp(keyString(t), buf) == 0, "keyTag: the keyword found is spelled like the word");
	l = keyLongest(buf);
	V_ASSERT(l <= TK_LIMIT, "keyLongest returns a token tag or TK_LIMIT");
	if (l != TK_LIMIT) V_ASSERT(strncmp(keyString(l), buf, strlen(keyString(l))) == 0, "keyLongest: the keyword found is a prefix of the text");
	if (t != TK_LIMIT) V_ASSERT(l != TK_LIMIT, "a word that is a keyword has a longest-keyword prefix");
}

#endif
Bool osIsInteractive(void) { return 0; }
V_ENTRY(h_iscont, char l1[SLEN + 1]; char l2[SLEN + 1];)
{
	char a[SLEN + 1], b[SLEN + 1]; int i; Bool r;
	for (i = 0; i < SLEN; i++) { a[i] = in->l1[i]; b[i] = in->l2[i]; }
	a[SLEN] = 0; b[SLEN] = 0;
	r = scanIsContinued(a);
	V_ASSERT(r == 0 || r == 1, "scanIsContinued returns a boolean");
	r = scanIsContinued(b);
	V_ASSERT(r == 0 || r == 1, "scanIsContinued returns a boolean (second line)");
	r = scanIsContinued(0);
	V_ASSERT(r == 0 || r == 1, "scanIsContinued(NULL) returns a boolean");
}
