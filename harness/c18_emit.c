/*
 * C18 -- a successful exit means every requested output was written.
 *
 * Real code executed: emit.c (the emitters), file.c (fileMustOpen and the
 * close helper), lib.c:libClose (separate entry).  stdio is the ENVIRONMENT:
 * fopen/fputc/fputs/fwrite/fprintf/fflush/fclose are replaced by a model in
 * which every call on the output stream fails or succeeds as dictated by a
 * symbolic schedule (in->fail[]); a failed write sets the stream's sticky
 * error indicator as ISO C specifies.  The content writers called by the
 * emitters (inclWrite, abWrSExpr, sxiWrite, foamWrSExpr, ccoPrint, ...) are
 * represented by "some number of writes on the stream" (WRITES_PER_CALL).
 *
 * Property: whenever any write / flush / close on the requested output
 * failed, the emitter does not return normally -- it leaves through the file
 * error handler (the compiler installs compFileError there, which is a fatal
 * diagnostic with non-zero exit).  The same model is used natively for the
 * replay, with the schedule taken from the counterexample.
 */
#include "axlgen.h"
#include "emit.h"
#include "file.h"
#include "fname.h"
#include "sexpr.h"
#include "ccode.h"
#include "verif.h"
#include <stdarg.h>

#include "c18_stdio.h"

/* ---- content writers: N writes on the stream ---- */
#ifndef WRITES_PER_CALL
#define WRITES_PER_CALL 2
#endif
static int v_content(FILE *f) { int i; for (i = 0; i < WRITES_PER_CALL; i++) fputc('x', f); return WRITES_PER_CALL; }
int  inclWrite(FILE *f, SrcLineList sll)                        { (void) sll; return v_content(f); }
int  abWrSExpr(FILE *f, AbSyn ab, ULong mode)                   { (void) ab; (void) mode; return v_content(f); }
int  symeListWrSExpr(FILE *f, String s, SymeList sl, ULong m)   { (void) s; (void) sl; (void) m; return v_content(f); }
int  sxiWrite(FILE *f, SExpr sx, ULong mode)                    { (void) sx; (void) mode; return v_content(f); }
int  foamWrSExpr(FILE *f, Foam foam, ULong mode)                { (void) foam; (void) mode; return v_content(f); }

/* ---- file names are opaque ---- */
static struct fileName v_fn_out = { { "", "out", "x" } }, v_fn_src = { { "", "src", "as" } };
#define FN_OUT (&v_fn_out)
#define FN_SRC (&v_fn_src)
String fnameUnparseStatic(FileName fn)        { (void) fn; return "out"; }
String fnameUnparseStaticWithout(FileName fn) { (void) fn; return "src"; }
Bool   osDirIsThere(String s)                 { (void) s; return 0; }

/* ---- the handler the compiler installs is fatal (compFileError -> comsgFatal -> exit) ---- */
static FILE *v_handler(FileName fn, IOMode mode)
{
	(void) fn; (void) mode;
	v_fatal_reached = 1;
#ifdef V_CBMC
	__CPROVER_assume(0);
#else
	printf("REPLAY-PATH-ENDED-IN-REFUSAL\n"); exit(4);
#endif
	return 0;
}

static struct emitInfo v_finfo;
static EmitInfo setup(const unsigned char *sched, FTypeNo kind)
{
	int i;
	for (i = 0; i < NSCHED; i++) v_sched[i] = sched[i];
	v_pos = 0; v_io_failed = 0; v_open = 0;
	for (i = 0; i < NSTREAM; i++) { v_err_sticky[i] = 0; v_isopen[i] = 0; }
	fileSetHandler(v_handler);
	v_finfo.fname[kind] = FN_OUT;
	v_finfo.fname[FTYPENO_SRC] = FN_SRC;
	return &v_finfo;
}
#define VERDICT(what) \
	V_ASSERT(!v_io_failed, what ": returned normally although a write or close on the requested output failed"); \
	V_ASSERT(!v_open, what ": output stream closed on return")

V_ENTRY(h_emit_included, unsigned char fail[NSCHED];)
{ EmitInfo fi = setup(in->fail, FTYPENO_INCLUDED); emitTheIncluded(fi, 0); VERDICT("emitTheIncluded (-Fai)"); }

V_ENTRY(h_emit_absyn, unsigned char fail[NSCHED];)
{ EmitInfo fi = setup(in->fail, FTYPENO_ABSYN); emitTheAbSyn(fi, 0); VERDICT("emitTheAbSyn (-Fap)"); }

V_ENTRY(h_emit_oldabsyn, unsigned char fail[NSCHED];)
{ EmitInfo fi = setup(in->fail, FTYPENO_OLDABSYN); emitTheOldAbSyn(fi, 0); VERDICT("emitTheOldAbSyn (-Fax)"); }

V_ENTRY(h_emit_symeexpr, unsigned char fail[NSCHED];)
{ EmitInfo fi = setup(in->fail, FTYPENO_SYMEEXPR); emitTheSymbolExpr(fi, 0, 0); VERDICT("emitTheSymbolExpr (-Fasy)"); }

V_ENTRY(h_emit_annabs, unsigned char fail[NSCHED];)
{ EmitInfo fi = setup(in->fail, FTYPENO_ANNABS); emitTheAnnotatedAbSyn(fi, 0); VERDICT("emitTheAnnotatedAbSyn (-Fabn)"); }

V_ENTRY(h_emit_foamexpr, unsigned char fail[NSCHED];)
{ EmitInfo fi = setup(in->fail, FTYPENO_FOAMEXPR); emitTheFoamExpr(fi, 0); VERDICT("emitTheFoamExpr (-Ffm)"); }

/* Lisp: a one-form list built by the harness (header fprintfs + one sxiWrite per form) */
static union SExprUnion v_nil  = { .sxHdr = { .tag = SX_Nil } };
static union SExprUnion v_cons = { .sxCons = { .hdr = { .tag = SX_Cons }, .sxCarField = &v_nil, .sxCdrField = &v_nil } };
V_ENTRY(h_emit_lisp, unsigned char fail[NSCHED]; int axlmain; int oneform;)
{
	EmitInfo fi = setup(in->fail, FTYPENO_LISP);
	fi->isAXLmain = in->axlmain != 0;
	emitTheLisp(fi, in->oneform ? &v_cons : &v_nil);
	VERDICT("emitTheLisp (-Flsp)");
}

/* ---- the C emitter: header + one C file (split output, -Csmax) or a single C file ---- */
int  ccoPrint(FILE *f, CCode cc, CCodeMode m)  { (void) cc; (void) m; return v_content(f); }
Bool ccDoStandardC(void) { return 1; }
Bool ccLineNos(void)     { return 0; }
static Length v_cclen(CCodeList l) { Length n = 0; while (l && n < 4) { n++; l = cdr(l); } return n; }
static struct CCode_listOpsStruct v_ccops = { ._Length = v_cclen };
struct CCode_listOpsStruct const *CCode_listPointer = &v_ccops;
struct FileName_listOpsStruct const *FileName_listPointer = 0;      /* only used for >= 3 output files */

static union ccode v_cc_body  = { .ccoNode = { .argc = 1 } };
static union ccode v_cc_unit1 = { .ccoNode = { .argc = 1, .argv = { &v_cc_body } } };
static union ccode v_cc_unit0 = { .ccoNode = { .argc = 1, .argv = { &v_cc_body } } };
static struct CCodeListCons v_ccl1 = { &v_cc_unit1, 0 };
static struct CCodeListCons v_ccl0 = { &v_cc_unit0, &v_ccl1 };
static struct fileName v_fn_hdr = { { "", "out", "h" } };

V_ENTRY(h_emit_c_single, unsigned char fail[NSCHED];)
{
	EmitInfo fi = setup(in->fail, FTYPENO_C);
	emitTheC(fi, &v_ccl1);                 /* one unit: a single .c file */
	VERDICT("emitTheC (-Fc, one file)");
}
V_ENTRY(h_emit_c_split, unsigned char fail[NSCHED];)
{
	EmitInfo fi = setup(in->fail, FTYPENO_C);
	fi->fname[FTYPENO_H] = &v_fn_hdr;
	emitTheC(fi, &v_ccl0);                 /* two units: shared header + one .c file, both on the modelled device */
	VERDICT("emitTheC (-Fc split: .h + .c)");
}
