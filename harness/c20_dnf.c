/*
 * C20 -- the disjunctive normal form is logically equivalent to the formula it was built from (dnf.c).
 * A formula  ((l1 o1 l2) o2 l3) [optionally negated at each level]  over literals of atoms 1..3 is built with the
 * real dnfAtom/dnfNotAtom/dnfAnd/dnfOr/dnfNot; for an arbitrary valuation the DNF evaluates like the formula.
 * dnfImplies / dnfEqual answers are checked against the valuation (soundness: a "yes" is never wrong).
 */
#include "axlgen.h"
#include "dnf.h"
#include "verif.h"

static int lit_val(int lit, unsigned v) { int a = lit < 0 ? -lit : lit; int b = (v >> (a - 1)) & 1; return lit < 0 ? !b : b; }

static int eval(DNF x, unsigned v)
{
	int i, j, any = 0;
	V_ASSERT(x->argc >= 0 && x->argc <= 8, "dnf: number of terms within harness bound");
	for (i = 0; i < 8; i++) if (i < x->argc) {
		DNF_And t = x->argv[i]; int all = 1;
		V_ASSERT(t != 0 && t->argc <= 3, "dnf: term present and at most 3 literals");
		for (j = 0; j < 3; j++) if ((Length) j < t->argc) {
			int l = t->argv[j];
			V_ASSERT(l != 0 && l >= -3 && l <= 3, "dnf: literal in range");
			if (!lit_val(l, v)) all = 0;
		}
		if (all) any = 1;
	}
	return any;
}

static DNF mklit(int l) { return l > 0 ? dnfAtom(l) : dnfNotAtom(-l); }

V_ENTRY(h_dnf_eval, int l1; int l2; int l3; int o1; int o2; int n1; int n2; unsigned v;)
{
	DNF a, b, c, y, z; int fy, fz; unsigned v = in->v & 7;
	V_ASSUME(in->l1 != 0 && in->l1 >= -3 && in->l1 <= 3);
	V_ASSUME(in->l2 != 0 && in->l2 >= -3 && in->l2 <= 3);
	V_ASSUME(in->l3 != 0 && in->l3 >= -3 && in->l3 <= 3);
	a = mklit(in->l1); b = mklit(in->l2); c = mklit(in->l3);
	y = (in->o1 & 1) ? dnfAnd(a, b) : dnfOr(a, b);
	fy = (in->o1 & 1) ? (lit_val(in->l1, v) && lit_val(in->l2, v)) : (lit_val(in->l1, v) || lit_val(in->l2, v));
	if (in->n1 & 1) { y = dnfNot(y); fy = !fy; }
	V_ASSERT(eval(y, v) == fy, "dnf of (l1 op l2) [negated] evaluates like the formula");
#ifdef LEVEL1
	V_ASSERT(!dnfIsTrue(y) || fy, "dnfIsTrue only for formulas true under every valuation");
	V_ASSERT(!dnfIsFalse(y) || !fy, "dnfIsFalse only for formulas false under every valuation");
	if (dnfImplies(a, y)) V_ASSERT(!lit_val(in->l1, v) || fy, "dnfImplies(l1, y) true => l1 implies y");
	if (dnfEqual(a, y))   V_ASSERT(lit_val(in->l1, v) == fy, "dnfEqual(l1, y) true => equivalent");
	return;
#endif
	z = (in->o2 & 1) ? dnfAnd(y, c) : dnfOr(y, c);
	fz = (in->o2 & 1) ? (fy && lit_val(in->l3, v)) : (fy || lit_val(in->l3, v));
	if (in->n2 & 1) { z = dnfNot(z); fz = !fz; }
	V_ASSERT(eval(z, v) == fz, "dnf of ((l1 op l2) op l3) [negated] evaluates like the formula");
	V_ASSERT(!dnfIsTrue(z) || fz, "dnfIsTrue only for formulas true under every valuation");
	V_ASSERT(!dnfIsFalse(z) || !fz, "dnfIsFalse only for formulas false under every valuation");
	/* soundness of the tests: a positive answer must hold under this (arbitrary) valuation */
	if (dnfImplies(y, z)) V_ASSERT(!fy || fz, "dnfImplies(y, z) true => y implies z");
	if (dnfImplies(z, y)) V_ASSERT(!fz || fy, "dnfImplies(z, y) true => z implies y");
	if (dnfEqual(y, z))   V_ASSERT(fy == fz, "dnfEqual(y, z) true => y equivalent to z");
}
