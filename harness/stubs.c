/*
 * stubs.c -- environment of the units under test (DESIGN.md 1.2).
 * Every stub here is part of the claim of every harness that links it and is
 * listed in evidence ("assumptions").
 *
 *  - storage: stoAlloc/stoFree/stoResize/stoSize -> malloc/free, allocation
 *    never fails (allocation failure is out of scope except for C10, which
 *    does not link this file's storage stubs: -DV_NO_STO_STUBS).
 *  - _do_assert / bug / abort / exitFailure: by default reaching one of them
 *    is a property violation ("the code under test reported an internal
 *    error on an input that satisfies its documented precondition").  With
 *    -DV_BUG_IS_REFUSAL the path simply ends there (used where refusing the
 *    input is the specified behaviour).
 *  - printing: bodies are empty; formatting is not the subject.
 */
#include "axlgen.h"
#include "store.h"
#include "verif.h"

int v_bug_reached;
int v_fatal_reached;

#ifdef V_CBMC
#  define V_END_PATH()  __CPROVER_assume(0)
#else
#  define V_END_PATH()  do { printf("REPLAY-PATH-ENDED-IN-REFUSAL\n"); fflush(stdout); exit(4); } while (0)
#endif

#ifdef V_BUG_IS_REFUSAL
#  define V_BUG(label)  do { v_bug_reached = 1; V_END_PATH(); } while (0)
#else
#  define V_BUG(label)  do { v_bug_reached = 1; V_ASSERT(0, label); V_END_PATH(); } while (0)
#endif

#ifndef V_NO_ASSERT_STUB
int _dont_assert = 0;
void _do_assert(char *str, char *file, int line)
{
	(void)str; (void)file; (void)line;
	V_BUG("internal assertion (_do_assert) not reached");
}
#endif

#ifndef V_NO_BUG_STUB
void bug(String fmt, ...)
{
	(void)fmt;
	V_BUG("bug() not reached");
}
void bugWarning(String fmt, ...) { (void)fmt; }
#endif

#ifdef V_CBMC
/* util.c:bug() and stdc.c:_do_assert() end in abort(); when the real util.c
 * is linked (-DV_NO_BUG_STUB) this is where they are caught. */
void abort(void)
{
	V_BUG("abort() not reached");
}
void exit(int status)
{
	(void)status;
	v_fatal_reached = 1;
	V_END_PATH();
}
#endif

#if defined(V_STO_ARENA)
/*
 * Arena model of the storage manager (for units whose blocks are resized):
 * blocks are carved from one static word array, never reused; resizing the
 * most recent block is done in place (a legal realloc behaviour), any other
 * block is moved.  Total allocation is bounded by V_STO_ARENA words -- the
 * bound is an assumption of every query that selects this model.
 * (CBMC's heap model with blocks of symbolic size ran out of memory on the
 * 3-entry line table of srcpos.c; this model decides it in seconds.)
 */
static unsigned long v_arena[V_STO_ARENA];
static unsigned long v_top, v_lastoff, v_lastw;
#define V_HDR 1
static void v_room(void)
{
#ifdef V_CBMC
	__CPROVER_assume(v_top <= V_STO_ARENA);
#else
	if (v_top > V_STO_ARENA) { printf("REPLAY: arena exhausted\n"); exit(5); }
#endif
}
MostAlignedType *stoAlloc(unsigned code, ULong size)
{
	unsigned long w = (size + 7) / 8;
	(void)code;
	v_lastoff = v_top + V_HDR; v_lastw = w;
	v_top += V_HDR + w; v_room();
	v_arena[v_lastoff - 1] = size;
	return (MostAlignedType *) &v_arena[v_lastoff];
}
void stoFree(Pointer p) { (void)p; }
ULong stoSize(Pointer p) { return ((unsigned long *)p)[-1]; }
MostAlignedType *stoResize(Pointer p, ULong size)
{
	unsigned long w = (size + 7) / 8, i, oldw;
	unsigned long *q;
	if ((unsigned long *)p == &v_arena[v_lastoff]) {
		v_top = v_lastoff + w; v_lastw = w; v_room();
		v_arena[v_lastoff - 1] = size;
		return (MostAlignedType *) p;
	}
	oldw = (stoSize(p) + 7) / 8;
	q = (unsigned long *) stoAlloc(0, size);
	for (i = 0; i < oldw && i < w; i++) q[i] = ((unsigned long *)p)[i];
	return (MostAlignedType *) q;
}
#elif defined(V_STO_FIXED)
/*
 * Fixed-size block model: every stoAlloc returns a fresh heap object of
 * V_STO_FIXED bytes (+ header); requests larger than that are outside the
 * claim (assumed away).  Distinct objects of concrete size are what CBMC's
 * memory model handles best; the request size may be symbolic.
 */
struct v_fblk { ULong size; ULong pad; unsigned long w[V_STO_FIXED / 8]; };
MostAlignedType *stoAlloc(unsigned code, ULong size)
{
	struct v_fblk *b;
	(void)code;
#ifdef V_CBMC
	__CPROVER_assume(size <= V_STO_FIXED);
#else
	if (size > V_STO_FIXED) { printf("REPLAY: block larger than V_STO_FIXED\n"); exit(5); }
#endif
	b = (struct v_fblk *) malloc(sizeof(struct v_fblk));
#ifdef V_CBMC
	__CPROVER_assume(b != 0);
#endif
	b->size = size;
	return (MostAlignedType *) b->w;
}
void stoFree(Pointer p) { (void)p; }   /* never reused: a use after free still reads the old contents */
ULong stoSize(Pointer p) { return ((ULong *)p)[-2]; }
MostAlignedType *stoResize(Pointer p, ULong size)
{
	unsigned long *q = (unsigned long *) stoAlloc(0, size), i;
	ULong old = stoSize(p);
	for (i = 0; i < V_STO_FIXED / 8; i++)
		if (i * 8 < old && i * 8 < size) q[i] = ((unsigned long *)p)[i];
	return (MostAlignedType *) q;
}
#elif !defined(V_NO_STO_STUBS)

/* store.h:  Pointer stoAlloc(unsigned code, ULong size) etc.
 * The size is remembered in a header word so that stoSize/stoResize work. */
typedef ULong ULong_;

struct v_blk { ULong_ size; ULong_ pad; };

MostAlignedType *stoAlloc(unsigned code, ULong size)
{
	struct v_blk *b;
	(void)code;
#ifdef V_STO_PAD
	/* FOAM nodes are allocated with only the used prefix of union foam and then accessed through the
	 * union type; pad the block so that the strict object-bounds model does not flag that idiom */
	b = (struct v_blk *) malloc(sizeof(struct v_blk) + size + V_STO_PAD);
#else
	b = (struct v_blk *) malloc(sizeof(struct v_blk) + size);
#endif
#ifdef V_CBMC
	__CPROVER_assume(b != 0);
#else
	if (!b) abort();
#endif
	b->size = size;
	return (MostAlignedType *)(b + 1);
}

void stoFree(Pointer p)
{
#ifdef V_STO_NOFREE
	(void) p;          /* blocks are never reused; operands may be static harness objects */
#else
	if (p) free(((struct v_blk *)p) - 1);
#endif
}

ULong stoSize(Pointer p)
{
	return (((struct v_blk *)p) - 1)->size;
}

MostAlignedType *stoResize(Pointer p, ULong size)
{
	ULong_ old = stoSize(p), n = old < size ? old : size;
	char *q = (char *) stoAlloc(0, size);
	memcpy(q, p, n);
	stoFree(p);
	return (MostAlignedType *) q;
}
#endif
