/*
 * stubs.c -- environment of the units under test (DESIGN.md 1.2).
 * Every stub here is part of the claim of every harness that links it and is
 * listed in evidence ("assumptions").
 *
 *  - storage: stoAlloc/stoFree/stoResize/stoSize -> malloc/free, allocation
 *    never fails (allocation failure is out of scope except for C10, which
 *    does not link this file's storage stubs: -DV_NO_STO_STUBS).
 *  - _do_assert / bug / abort / exitFailure: by default reaching one of them
 *    is a property violation ("the code under test reported an internal
 *    error on an input that satisfies its documented precondition").  With
 *    -DV_BUG_IS_REFUSAL the path simply ends there (used where refusing the
 *    input is the specified behaviour).
 *  - printing: bodies are empty; formatting is not the subject.
 */
#include "axlgen.h"
#include "store.h"
#include "verif.h"

int v_bug_reached;
int v_fatal_reached;

#ifdef V_CBMC
#  define V_END_PATH()  __CPROVER_assume(0)
#else
#  define V_END_PATH()  do { printf("REPLAY-PATH-ENDED-IN-REFUSAL\n"); fflush(stdout); exit(4); } while (0)
#endif

#ifdef V_BUG_IS_REFUSAL
#  define V_BUG(label)  do { v_bug_reached = 1; V_END_PATH(); } while (0)
#else
#  define V_BUG(label)  do { v_bug_reached = 1; V_ASSERT(0, label); V_END_PATH(); } while (0)
#endif

#ifndef V_NO_ASSERT_STUB
int _dont_assert = 0;
void _do_assert(char *str, char *file, int line)
{
	(void)str; (void)file; (void)line;
	V_BUG("internal assertion (_do_assert) not reached");
}
#endif

#ifndef V_NO_BUG_STUB
void bug(String fmt, ...)
{
	(void)fmt;
	V_BUG("bug() not reached");
}
void bugWarning(String fmt, ...) { (void)fmt; }
#endif

#ifdef V_CBMC
/* util.c:bug() and stdc.c:_do_assert() end in abort(); when the real util.c
 * is linked (-DV_NO_BUG_STUB) this is where they are caught. */
void abort(void)
{
	V_BUG("abort() not reached");
}
void exit(int status)
{
	(void)status;
	v_fatal_reached = 1;
	V_END_PATH();
}
#endif

#ifndef V_NO_STO_STUBS
/* store.h:  Pointer stoAlloc(unsigned code, ULong size) etc.
 * The size is remembered in a header word so that stoSize/stoResize work. */
typedef ULong ULong_;

struct v_blk { ULong_ size; ULong_ pad; };

MostAlignedType *stoAlloc(unsigned code, ULong size)
{
	struct v_blk *b;
	(void)code;
	b = (struct v_blk *) malloc(sizeof(struct v_blk) + size);
#ifdef V_CBMC
	__CPROVER_assume(b != 0);
#else
	if (!b) abort();
#endif
	b->size = size;
	return (MostAlignedType *)(b + 1);
}

void stoFree(Pointer p)
{
	if (p) free(((struct v_blk *)p) - 1);
}

ULong stoSize(Pointer p)
{
	return (((struct v_blk *)p) - 1)->size;
}

MostAlignedType *stoResize(Pointer p, ULong size)
{
	ULong_ old = stoSize(p), n = old < size ? old : size, i;
	char *q = (char *) stoAlloc(0, size);
	for (i = 0; i < n; i++) q[i] = ((char *)p)[i];
	stoFree(p);
	return (MostAlignedType *) q;
}
#endif
