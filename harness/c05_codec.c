/*
 * C05 -- saved intermediate forms lose nothing: the FOAM byte codec (foam.c: foamToBuffer / foamFrBuffer /
 * foamSIntReduce / foamTagFormat, buffer.c put/get, xfloat.c, bigint.c export/import).
 * A node of CONCRETE kind (static object with constant tag, -DKIND) and SYMBOLIC payload is written with the
 * real encoder and read back with the real decoder; the node read back denotes the same value, and the
 * decoder consumes exactly the bytes the encoder produced.
 */
#include "axlgen.h"
#include "buffer.c"      /* struct buffer is private to buffer.c; a typed static Buffer keeps positions concrete for symex */
#include "foam.h"
#include "bigint.h"
#include "store.h"
#include "verif.h"
#include <string.h>

static unsigned f2u(float f)   { unsigned u; memcpy(&u, &f, 4); return u; }
static float    u2f(unsigned u){ float f;    memcpy(&f, &u, 4); return f; }
static unsigned long d2u(double d)       { unsigned long u; memcpy(&u, &d, 8); return u; }
static double        u2d(unsigned long u){ double d;        memcpy(&d, &u, 8); return d; }

static UByte v_bytes[60];     /* <= 64: CBMC keeps arrays up to 64 elements field-sensitive, so the bytes written stay concrete */
static struct buffer v_buf;
static Buffer mkbuf(void) { v_buf.argv = v_bytes; v_buf.argc = sizeof v_bytes; v_buf.pos = 0; return &v_buf; }

/*
 * Value denoted by an SInt constant or by the portable re-expression foamSIntReduce produces, and whether every
 * constant in it fits 32 bits.  The evaluator is iterative and handles CHAINS: trees over ShiftUp / Or / Negate in
 * which at every binary node at least one operand is a constant (foamSIntReduce builds a left-leaning chain).  A
 * recursive evaluator made symbolic execution explore 4^depth shapes and never finished.
 */
#define CHAIN 8
static int fits32(long v) { return v >= -2147483647L - 1 && v <= 2147483647L; }
static long denote(Foam f, int *all32)
{
	int op[CHAIN], side[CHAIN], n = 0, k; long leaf[CHAIN], v;
	*all32 = 1;
	for (k = 0; k < CHAIN && foamTag(f) != FOAM_SInt; k++) {
		V_ASSERT(foamTag(f) == FOAM_BCall, "reduced wide integer is a tree of builtin calls over constants");
		op[n] = f->foamBCall.op; leaf[n] = 0; side[n] = 0;
		if (op[n] == FOAM_BVal_SIntNegate) f = f->foamBCall.argv[0];
		else {
			V_ASSERT(op[n] == FOAM_BVal_SIntShiftUp || op[n] == FOAM_BVal_SIntOr, "reduced wide integer uses only ShiftUp / Or / Negate");
			if (foamTag(f->foamBCall.argv[1]) == FOAM_SInt) { leaf[n] = f->foamBCall.argv[1]->foamSInt.SIntData; side[n] = 1; f = f->foamBCall.argv[0]; }
			else {
				V_ASSERT(foamTag(f->foamBCall.argv[0]) == FOAM_SInt, "harness evaluator: one operand of every binary node is a constant");
				leaf[n] = f->foamBCall.argv[0]->foamSInt.SIntData; side[n] = 0; f = f->foamBCall.argv[1];
			}
			if (!fits32(leaf[n])) *all32 = 0;
		}
		n++;
	}
	V_ASSERT(foamTag(f) == FOAM_SInt, "reduced wide integer is a chain of at most 8 operations");
	v = f->foamSInt.SIntData;
	if (!fits32(v)) *all32 = 0;
	for (k = CHAIN - 1; k >= 0; k--) if (k < n) {
		if (op[k] == FOAM_BVal_SIntNegate) v = (long)(0UL - (unsigned long) v);
		else if (op[k] == FOAM_BVal_SIntOr) v = v | leaf[k];
		else v = side[k] ? (long)((unsigned long) v << leaf[k]) : (long)((unsigned long) leaf[k] << v);
	}
	return v;
}

static union foam N_sint = { .foamSInt = { .hdr = { .tag = FOAM_SInt, .argc = 1 } } };
/* (a) values that fit 32 bits go through the buffer unchanged */
V_ENTRY(h_codec_sint32, int v;)
{
	Buffer b = mkbuf(); Foam r; int n;
	N_sint.foamSInt.SIntData = in->v;
	n = foamToBuffer(b, &N_sint);
	V_ASSERT(n > 0 && (Length) n == bufPosition(b), "foamToBuffer returns the number of bytes written");
	bufSetPosition(b, 0);
	r = foamFrBuffer(b);
	V_ASSERT(bufPosition(b) == (Length) n, "decoder consumes exactly the bytes the encoder wrote");
	V_ASSERT(foamTag(r) == FOAM_SInt && r->foamSInt.SIntData == (long) in->v, "32-bit SInt constant read back");
}
/* (b) wider values are re-expressed by foamSIntReduce: the expression denotes the same value and all its
 *     leaves fit 32 bits (so that (a) applies to them).  The buffer round trip of the whole expression gave no
 *     verdict in 700 s and is not part of the claim. */
V_ENTRY(h_codec_sintwide, long v;)
{
	Foam r; int all32; long d;
	N_sint.foamSInt.SIntData = in->v;
	r = foamSIntReduce(&N_sint);
	d = denote(r, &all32);
	V_ASSERT(d == in->v, "foamSIntReduce: the portable re-expression denotes the same value");
	V_ASSERT(all32, "foamSIntReduce: every constant of the re-expression fits 32 bits");
}

#define SMALL(name, TAG, member, field, ctype, mask)                                                   \
static union foam N_##name = { .member = { .hdr = { .tag = TAG, .argc = 1 } } };                      \
V_ENTRY(h_codec_##name, long v;)                                                                      \
{                                                                                                     \
	Buffer b = mkbuf(); Foam r; int n; long v = in->v & (mask);                                   \
	N_##name.member.field = v;                                                                     \
	n = foamToBuffer(b, &N_##name);                                                                \
	bufSetPosition(b, 0);                                                                          \
	r = foamFrBuffer(b);                                                                           \
	V_ASSERT(bufPosition(b) == (Length) n, "decoder consumes exactly the bytes the encoder wrote"); \
	V_ASSERT(foamTag(r) == TAG, #name ": tag read back");                                         \
	V_ASSERT((ctype) r->member.field == (ctype) v, #name ": value read back");                   \
}
SMALL(bool, FOAM_Bool, foamBool, BoolData, unsigned char, 1)
SMALL(char, FOAM_Char, foamChar, CharData, unsigned char, 0xff)
SMALL(byte, FOAM_Byte, foamByte, ByteData, unsigned char, 0xff)
SMALL(hint, FOAM_HInt, foamHInt, HIntData, short, 0xffff)

static union foam N_sflo = { .foamSFlo = { .hdr = { .tag = FOAM_SFlo, .argc = 1 } } };
V_ENTRY(h_codec_sflo, unsigned bits;)
{
	Buffer b = mkbuf(); Foam r; int n; unsigned out;
	N_sflo.foamSFlo.SFloData = u2f(in->bits);
	n = foamToBuffer(b, &N_sflo);
	bufSetPosition(b, 0);
	r = foamFrBuffer(b);
	V_ASSERT(bufPosition(b) == (Length) n, "decoder consumes exactly the bytes the encoder wrote");
	out = f2u(r->foamSFlo.SFloData);
	if (((in->bits >> 23) & 0xff) == 0xff && (in->bits & 0x7fffff))
		V_ASSERT(((out >> 23) & 0xff) == 0xff && (out & 0x7fffff), "SFlo constant: NaN stays NaN through the .ao encoding");
	else
		V_ASSERT(out == in->bits, "SFlo constant: same bits through the .ao encoding");
}

static union foam N_dflo = { .foamDFlo = { .hdr = { .tag = FOAM_DFlo, .argc = 1 } } };
V_ENTRY(h_codec_dflo, unsigned long bits;)
{
	Buffer b = mkbuf(); Foam r; int n; unsigned long out;
	N_dflo.foamDFlo.DFloData = u2d(in->bits);
	n = foamToBuffer(b, &N_dflo);
	bufSetPosition(b, 0);
	r = foamFrBuffer(b);
	V_ASSERT(bufPosition(b) == (Length) n, "decoder consumes exactly the bytes the encoder wrote");
	out = d2u(r->foamDFlo.DFloData);
	if (((in->bits >> 52) & 0x7ff) == 0x7ff && (in->bits & 0xfffffffffffffUL))
		V_ASSERT(((out >> 52) & 0x7ff) == 0x7ff && (out & 0xfffffffffffffUL), "DFlo constant: NaN stays NaN through the .ao encoding");
	else
		V_ASSERT(out == in->bits, "DFlo constant: same bits through the .ao encoding");
}

/* character array (string literal): n elements, each an arbitrary character */
#ifndef ARRN
#define ARRN 4
#endif
static union foam N_arr = { .foamArr = { .hdr = { .tag = FOAM_Arr, .argc = 1 + ARRN }, .baseType = FOAM_Char } };
V_ENTRY(h_codec_arr, unsigned char c[ARRN];)
{
	Buffer b = mkbuf(); Foam r; int n, i;
	for (i = 0; i < ARRN; i++) N_arr.foamArr.eltv[i] = in->c[i];
	n = foamToBuffer(b, &N_arr);
	bufSetPosition(b, 0);
	r = foamFrBuffer(b);
	V_ASSERT(bufPosition(b) == (Length) n, "decoder consumes exactly the bytes the encoder wrote");
	V_ASSERT(foamTag(r) == FOAM_Arr && foamArgc(r) == 1 + ARRN && r->foamArr.baseType == FOAM_Char, "Arr: tag, length and base type read back");
	for (i = 0; i < ARRN; i++) V_ASSERT(r->foamArr.eltv[i] == in->c[i], "Arr: every character read back");
}
