/* stdio as the environment of the output writers (C18): every call on an output stream fails or succeeds as dictated
 * by a symbolic schedule; a failed write sets the stream's sticky error indicator (ISO C).  Shared by c18_emit.c and
 * c18_lib.c; used unchanged by the native replay. */
#include <stdarg.h>
static int  v_io_failed;        /* ghost: some operation on a requested output failed */
#define NSCHED 24
static unsigned char v_sched[NSCHED];
static int  v_pos;
#define NSTREAM 3
static int  v_err_sticky[NSTREAM];  /* each stream's error indicator                        */
static int  v_isopen[NSTREAM];
static int  v_open;                 /* number of streams currently open                      */
static FILE v_stream[NSTREAM];

static int v_fail_now(void)
{
	int f;
	V_ASSUME(v_pos < NSCHED);          /* bound: at most NSCHED stdio calls per emitter run */
	f = v_sched[v_pos++] & 1;
	return f;
}
static int v_ix(FILE *f) { int i; for (i = 0; i < NSTREAM; i++) if (f == &v_stream[i]) return i; return -1; }

/* ---- stdio model ---- */
FILE *fopen(const char *name, const char *mode)
{
	int i;
	(void) name; (void) mode;
	if (v_fail_now()) return 0;        /* cannot create the output */
	for (i = 0; i < NSTREAM; i++) if (!v_isopen[i]) break;
	V_ASSUME(i < NSTREAM);
	v_isopen[i] = 1; v_err_sticky[i] = 0; v_open++;
	return &v_stream[i];
}
static int v_write(FILE *f)
{
	int i = v_ix(f);
	if (i < 0) return 0;
	if (v_fail_now()) { v_err_sticky[i] = 1; v_io_failed = 1; return -1; }
	return 0;
}
int fputc(int c, FILE *f)                   { return v_write(f) ? EOF : (unsigned char) c; }
int putc(int c, FILE *f)                    { return v_write(f) ? EOF : (unsigned char) c; }
int fputs(const char *s, FILE *f)           { (void) s; return v_write(f) ? EOF : 1; }
size_t fwrite(const void *p, size_t sz, size_t n, FILE *f) { (void) p; (void) sz; return v_write(f) ? 0 : n; }
int fprintf(FILE *f, const char *fmt, ...)  { (void) fmt; return v_write(f) ? -1 : 1; }
int vfprintf(FILE *f, const char *fmt, va_list ap) { (void) fmt; (void) ap; return v_write(f) ? -1 : 1; }
int fflush(FILE *f)                         { return v_write(f) ? EOF : 0; }
int ferror(FILE *f)                         { int i = v_ix(f); return i >= 0 ? v_err_sticky[i] : 0; }
void clearerr(FILE *f)                      { int i = v_ix(f); if (i >= 0) v_err_sticky[i] = 0; }
void rewind(FILE *f)                        { clearerr(f); }
int fseek(FILE *f, long off, int wh)        { (void) f; (void) off; (void) wh; return 0; }
int fclose(FILE *f)
{
	int i = v_ix(f);
	if (i < 0) return 0;
	v_isopen[i] = 0; v_open--;
	if (v_fail_now()) { v_io_failed = 1; return EOF; }
	return 0;
}

