/*
 * C17 -- damaged library files are refused: the member-name reader of GNU-format archives (archive.c:arRdItemArch,
 * arRdItemArch0, arReadText/Number; all file-local, archive.c is #included).
 *
 * One 60-byte member header is read from a file model whose 16-byte NAME FIELD IS SYMBOLIC (every byte string: a
 * direct name, or "/K": the character offset K of a long name in the archive's name table); the numeric fields of
 * the header are well-formed constants.  The name table already read from the archive ("//" member) is a block of
 * NT symbolic characters plus a terminating NUL.  Obligation: whatever the name field says, the reader stays inside
 * the name table (CBMC's bounds checks on the table object) and returns a NUL-terminated name.
 */
#include "buffer.c"      /* struct buffer is private to buffer.c */
#include "archive.c"
#include "verif.h"
#include <stdarg.h>

#ifndef NT
#define NT 12
#endif
static char v_hdr[61];
static unsigned v_pos;
static FILE v_stream;
static int v_errors;

size_t fread(void *p, size_t sz, size_t n, FILE *f)
{
	size_t want = sz * n, i;
	(void) f;
	if (v_pos + want > 60) return 0;
	for (i = 0; i < 16; i++) if (i < want) ((char *) p)[i] = v_hdr[v_pos + i];
	v_pos += want;
	return n;
}
int fseek(FILE *f, long off, int whence) { (void) f; (void) off; (void) whence; return 0; }
long ftell(FILE *f) { (void) f; return (long) v_pos; }

long strtol(const char *s, char **endp, int base)
{
	long v = 0; int i = 0;
	while (s[i] == ' ') i++;
	for (; i < 20 && s[i] >= '0' && s[i] < '0' + (base < 10 ? base : 10); i++) v = v * base + (s[i] - '0');
	if (endp) *endp = (char *) s + i;
	return v;
}
/* sscanf as used by arRdItemArch: format "%8lu " */
int sscanf(const char *s, const char *fmt, ...)
{
	va_list ap; unsigned long *out, v = 0; int i = 0, nd = 0;
	(void) fmt;
	va_start(ap, fmt); out = va_arg(ap, unsigned long *); va_end(ap);
	while (s[i] == ' ' || s[i] == '\t' || s[i] == '\n') i++;
	if (s[i] == '+') i++;
	for (; nd < 8 && s[i] >= '0' && s[i] <= '9'; i++, nd++) v = v * 10 + (unsigned long)(s[i] - '0');
	if (nd == 0) return s[i] ? 0 : -1;
	*out = v;
	return 1;
}
Length strLength(CString s) { Length n = 0; while (n < 64 && s[n]) n++; return n; }
void comsgError(AbSyn ab, Msg msg, ...) { (void) ab; (void) msg; v_errors++; }
String fnameUnparseStatic(FileName fn) { (void) fn; return "lib.al"; }
String fnameUnparse(FileName fn) { (void) fn; return "lib.al"; }

/* storage: typed static blocks (the buffer object, its 64-byte character block, the 17-byte name block) */
static struct buffer v_bufobj;
static UByte v_bufchars[64];       /* BUF_INIT_SIZE */
static char v_nameblk[17];
MostAlignedType *stoAlloc(unsigned code, ULong size)
{
	if (code == OB_Buffer) { V_ASSUME(size == sizeof v_bufobj); return (MostAlignedType *) &v_bufobj; }
	V_ASSUME(size <= sizeof v_bufchars);
	return (MostAlignedType *) v_bufchars;
}
ULong stoSize(Pointer p) { (void) p; return sizeof v_bufchars; }
void stoFree(Pointer p) { (void) p; }
MostAlignedType *stoResize(Pointer p, ULong n) { (void) p; V_ASSUME(n <= sizeof v_bufchars); return (MostAlignedType *) v_bufchars; }
String strAlloc(Length n) { V_ASSUME(n == 16); return v_nameblk; }
void strFree(String s) { (void) s; }

static char v_names[NT + 1];
static struct archive v_ar;

V_ENTRY(h_ar_longname, char name[16]; char names[NT];)
{
	static const char rest[] = "0           0     0     644     0         `\n";     /* date uid gid mode size magic */
	String r; int i;
	for (i = 0; i < 16; i++) v_hdr[i] = in->name[i];
	for (i = 0; i < 44; i++) v_hdr[16 + i] = rest[i];
	for (i = 0; i < NT; i++) v_names[i] = in->names[i];
	v_names[NT] = 0;
	V_ASSUME(!(in->name[0] == '/' && in->name[1] == '/'));        /* "//" = a further name table: not this entry point */
#ifdef INDIRECT                                                        /* the end-of-harness witness then proves the "/K" path reachable */
	V_ASSUME(in->name[0] == '/');
#else
	V_ASSUME(in->name[0] != '/');
#endif
	v_pos = 0; v_errors = 0;
	v_ar.file = &v_stream; v_ar.format = AR_Arch; v_ar.size = 1000; v_ar.__next = 0; v_ar.names = v_names; v_ar.hasFile = true;
	r = arRdItemArch(&v_ar);
	V_ASSERT(r != 0, "a member name is returned");
	V_ASSERT(v_ar.pos != 0 || v_errors > 0, "a member that is refused (position reset) is refused with a diagnostic");
#ifdef INDIRECT
	{	/* a well-formed "/K" field (decimal digits, then blanks) with K inside the table names the entry that starts at K */
		unsigned long K = 0; int k = 1, nd = 0, wf, j, same = 1, ended = 0;
		for (; k < 16 && nd < 8 && in->name[k] >= '0' && in->name[k] <= '9'; k++, nd++) K = K * 10 + (unsigned long)(in->name[k] - '0');
		wf = nd > 0;
		for (; k < 16; k++) if (in->name[k] != ' ') wf = 0;
		if (wf && K < strLength(v_names)) {
			V_ASSERT(v_ar.pos != 0 && v_errors == 0, "a long-name reference inside the name table is accepted");
			for (j = 0; j < NT + 1; j++) if (!ended) {
				char c = K + j <= NT ? v_names[K + j] : 0;
				if (c == '\n' || c == '/' || c == 0) { if (r[j] != 0) same = 0; ended = 1; }
				else if (r[j] != c) { same = 0; ended = 1; }
			}
			V_ASSERT(same, "the member name is the name-table entry that starts at offset K");
		}
	}
#endif
}
