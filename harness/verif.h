/*
 * verif.h -- glue shared by every harness in /verif/harness.
 *
 * A harness file defines one or more entry points with
 *
 *     V_ENTRY(h_name, int a; unsigned char s[4]; ) { ... use in->a ... }
 *
 * Under CBMC (goto-cc defines __CPROVER__) the input record `in` is a
 * nondeterministic value of the record type: every field is a symbolic
 * variable.  Natively (gcc, -DV_REPLAY) the record is the concrete
 * counterexample extracted from the CBMC trace by vlib/core.py, so the very
 * same harness text is the replay program.
 *
 * V_ASSUME : precondition (part of the claim; each one is listed in evidence)
 * V_ASSERT : the property.  The label is the key used by known_findings.txt.
 * Every entry ends in a reachability witness: an assertion that MUST be
 * reported violated by the solver, otherwise the harness is vacuous and the
 * driver reports the check as broken.
 */
#ifndef VERIF_H
#define VERIF_H

#ifdef V_CBMC
#  define V_ASSUME(c)        __CPROVER_assume(c)
#  define V_ASSERT(c, label) __CPROVER_assert((c), "PROP " label)
#  define V_WITNESS()        __CPROVER_assert(0, "WITNESS end of harness reachable")
#  define V_ENTRY(name, ...)                                               \
	struct in_##name { __VA_ARGS__ };                                  \
	struct in_##name nondet_in_##name(void);                           \
	static void body_##name(struct in_##name *in);                     \
	void name(void) {                                                  \
		struct in_##name IN = nondet_in_##name();                  \
		body_##name(&IN);                                          \
		V_WITNESS();                                               \
	}                                                                  \
	static void body_##name(struct in_##name *in)
#else
#  include <stdio.h>
#  include <stdlib.h>
#  define V_ASSUME(c)  do { if (!(c)) { printf("REPLAY-ASSUME-FALSE: %s\n", #c); fflush(stdout); exit(3); } } while (0)
#  define V_ASSERT(c, label) do { if (!(c)) { printf("REPLAY-FAIL: %s\n", label); fflush(stdout); exit(1); } } while (0)
#  define V_WITNESS()  do { printf("REPLAY-END-REACHED\n"); fflush(stdout); } while (0)
#  define V_ENTRY(name, ...)                                               \
	struct in_##name { __VA_ARGS__ };                                  \
	struct in_##name REPLAY_in_##name;  /* tentative definition */    \
	static void body_##name(struct in_##name *in);                     \
	void name(void) {                                                  \
		struct in_##name IN = REPLAY_in_##name;                    \
		body_##name(&IN);                                          \
		V_WITNESS();                                               \
	}                                                                  \
	static void body_##name(struct in_##name *in)
#endif

/* ghost state shared with stubs.c */
extern int v_bug_reached;      /* bug()/assert/abort path was taken           */
extern int v_fatal_reached;    /* a diagnosed, orderly refusal path was taken */

#endif
