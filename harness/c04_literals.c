/*
 * C04 -- literal-conversion builtin ArrToSInt: the function every evaluator calls (foam_c.c:fiArrToSInt, through
 * util.c:ulongSmallIntFrString) against the definition of the Aldor integer literal  [RR 'r'] WW  (radix 2..36,
 * digits 0-9 A-Z below the radix).  libc strtol/strchr/strrchr/strncpy are the environment and are modelled here
 * by straightforward reference implementations (used natively by the replay as well).
 */
#include "axlgen.h"
#include "foam_c.h"
#include "verif.h"
#include <errno.h>
#include <string.h>

#ifndef LLEN
#define LLEN 5
#endif

static int v_errno;
int *__errno_location(void) { return &v_errno; }

static int digval(int c) { return (c >= '0' && c <= '9') ? c - '0' : (c >= 'A' && c <= 'Z') ? c - 'A' + 10 : (c >= 'a' && c <= 'z') ? c - 'a' + 10 : 99; }
long strtol(const char *s, char **end, int base)
{
	long v = 0; int i = 0, any = 0;
	while (i < LLEN + 2 && digval((unsigned char) s[i]) < base) { v = v * base + digval((unsigned char) s[i]); i++; any = 1; }
	if (end) *end = (char *) s + (any ? i : 0);
	return v;
}
char *strchr(const char *s, int c)  { int i; for (i = 0; i < LLEN + 2; i++) { if (s[i] == (char) c) return (char *) s + i; if (!s[i]) break; } return 0; }
char *strrchr(const char *s, int c) { int i; char *r = 0; for (i = 0; i < LLEN + 2; i++) { if (s[i] == (char) c) r = (char *) s + i; if (!s[i]) break; } return r; }
char *strncpy(char *d, const char *s, size_t n) { size_t i; int z = 0; for (i = 0; i < LLEN + 2; i++) if (i < n) { if (!z && !s[i]) z = 1; d[i] = z ? 0 : s[i]; } return d; }

V_ENTRY(h_arr2sint, char s[LLEN + 1];)
{
	char buf[LLEN + 2]; int i, n = 0, rp = -1, radix = 10, start = 0, ok = 1; long want = 0, got;
	for (i = 0; i < LLEN; i++) buf[i] = in->s[i];
	buf[LLEN] = 0; buf[LLEN + 1] = 0;
	while (n < LLEN && buf[n]) n++;
	/* well-formed literal: [RR r] WW, RR decimal in 2..36 (at most 2 digits), WW non-empty digits below the radix */
	for (i = 0; i < LLEN; i++) if (i < n && buf[i] == 'r' && rp < 0) rp = i;
	if (rp >= 0) {
		V_ASSUME(rp >= 1 && rp <= 2);
		radix = 0;
		for (i = 0; i < 2; i++) if (i < rp) { V_ASSUME(buf[i] >= '0' && buf[i] <= '9'); radix = radix * 10 + (buf[i] - '0'); }
		V_ASSUME(radix >= 2 && radix <= 36);
		start = rp + 1;
	}
	V_ASSUME(n > start);
	for (i = 0; i < LLEN; i++) if (i >= start && i < n) {
		int d = digval((unsigned char) buf[i]);
		V_ASSUME(buf[i] != 'r' && !(buf[i] >= 'a' && buf[i] <= 'z') && d < radix);
		want = want * radix + d;
	}
	(void) ok;
	got = fiArrToSInt((FiArr) buf);
	V_ASSERT(got == want, "ArrToSInt: value of a well-formed integer literal [RR r] WW (radix 2..36)");
}
