/*
 * C07 -- total on arbitrary source text, "#if directive soups": the conditional-inclusion state machine of
 * include.c (inclFileContents / inclLine / inclHandleDirective / inclHandleIf / Elseif / Else / Endif, all file-local;
 * include.c is #included) together with the real fluid-variable stack (fluid.c).
 *
 * The source is a sequence of exactly NLINE lines; every line is one of
 *     text | #if P | #if Q | #elseif P | #elseif Q | #else | #endif | #unknown        (P asserted, Q not)
 * in any order (balanced or not).  The SHAPE (which lines are text, which #if, which #endif, which another directive)
 * is concrete per query (-DSHAPE = base-4 number, all 4^NLINE shapes enumerated by props/c07.py), so that the
 * recursion of the includer is concrete; the asserted/unasserted property of every #if and which of
 * #elseif P / #elseif Q / #else / unknown every other directive is, are SYMBOLIC.  The characters are delivered by osGetc through the real inclGetLine; the directive
 * name recogniser and the identifier scanner of syscmd.c are replaced by their contract on these eight line forms;
 * source lines and list cells come from typed static pools.
 *
 * Obligations: no fault / bug() / assertion inside the includer; the includer terminates (unwinding assertions);
 * an #if that is still open at end of file is diagnosed, a balanced file gets no end-of-file diagnostic;
 * #else/#elseif/#endif outside any #if is diagnosed; exactly the text lines of the taken branches are included.
 */
#include "buffer.c"      /* struct buffer is private to buffer.c */
#include "include.c"
#include "verif.h"

#ifndef NLINE
#define NLINE 4
#endif
enum { L_TEXT, L_IFP, L_IFQ, L_ELIFP, L_ELIFQ, L_ELSE, L_ENDIF, L_UNKNOWN, L_KINDS };

#ifndef SHAPE
#define SHAPE 0
#endif
static unsigned char v_kind[NLINE + 1];
static int v_class[NLINE + 1];          /* concrete: 0 text, 1 #if, 2 #endif, 3 other directive */
static int v_n, v_line, v_col;          /* v_line: lines completely delivered */

/* ---- the character source ---- */
int osGetc(FILE *f)
{
	(void) f;
	if (v_line >= v_n) return EOF;
	if (v_col == 0) { v_col = 1; return v_class[v_line] == 0 ? 'x' : '#'; }
	v_col = 0; v_line++;
	return '\n';
}

/* ---- contract of syscmd.c's recognisers on the eight line forms ---- */
static int namecode(const char *n)
{
	if (n[0] == 'i' && n[1] == 'f' && n[2] == 0) return 1;
	if (n[0] == 'e' && n[1] == 'l' && n[2] == 's' && n[3] == 'e' && n[4] == 'i') return 2;
	if (n[0] == 'e' && n[1] == 'l' && n[2] == 's' && n[3] == 'e' && n[4] == 0) return 3;
	if (n[0] == 'e' && n[1] == 'n' && n[2] == 'd' && n[3] == 'i') return 4;
	return 0;
}
static int kindcode(int k) { return k == L_IFP || k == L_IFQ ? 1 : k == L_ELIFP || k == L_ELIFQ ? 2 : k == L_ELSE ? 3 : k == L_ENDIF ? 4 : 0; }
#define CUR (v_kind[v_line - 1])
String scmdIsDirective(String line, String name)
{
	int c = namecode(name), cls = v_class[v_line - 1];
	if (c == 0) return 0;
	if (c == 1) return cls == 1 ? line + 1 : 0;          /* concrete */
	if (c == 4) return cls == 2 ? line + 1 : 0;          /* concrete */
	return (cls == 3 && c == kindcode(CUR)) ? line + 1 : 0;
}
String scmdScanId(String s, String *pid) { *pid = (CUR == L_IFP || CUR == L_ELIFP) ? "P" : "Q"; return s; }
String scmdScanFName(String s, String *p) { (void) s; (void) p; return 0; }
String scmdScanInteger(String s, int *p) { (void) s; (void) p; return 0; }
static int v_unknown_checked;
void scmdCheck(SrcPos spos, String cmd) { (void) spos; (void) cmd; v_unknown_checked++; }
Bool strEqual(String a, String b) { return a[0] == b[0]; }

/* ---- diagnostics ---- */
static int v_err_eof, v_err_else, v_err_elseif, v_err_endif, v_err_other;
CoMsg comsgVError(AbSyn ab, Msg fmt, va_list argp)
{
	(void) ab; (void) argp;
	if (fmt == ALDOR_E_InclIfEof) v_err_eof++;
	else if (fmt == ALDOR_E_InclUnbalElse) v_err_else++;
	else if (fmt == ALDOR_E_InclUnbalElseif) v_err_elseif++;
	else if (fmt == ALDOR_E_InclUnbalEndif) v_err_endif++;
	else v_err_other++;
	return 0;
}
AbSyn abNew(AbSynTag t, SrcPos p, Length n, ...) { (void) t; (void) p; (void) n; return 0; }
SrcPos sposNew(FileName fn, Length l, Length g, Length c) { (void) fn; (void) l; (void) g; (void) c; return (SrcPos) 0; }

/* ---- typed pools: source lines and list cells ---- */
/* every source line gives rise to at most one SrcLine and one list cell: slot = (concrete) line number */
#define NSL  (NLINE + 1)
#define NCELL (NLINE + 1)
static struct srcLine v_sl[NSL];             static int v_sl_used[NSL];
static struct SrcLineListCons v_cell[NCELL]; static int v_cell_used[NCELL];
SrcLine slineNew(SrcPos spos, int indent, String text)
{
	SrcLine sl = &v_sl[v_line];
	V_ASSERT(!v_sl_used[v_line], "harness storage model: one source-line object per input line");
	v_sl_used[v_line] = 1;
	sl->spos = spos; sl->indentation = indent; sl->isSysCmd = false; sl->sysCmdHandled = false; sl->isEndifLine = false;
	sl->text = text;
	return sl;
}
SrcLine slineNewSysCmd(SrcPos spos, int indent, String text, Bool isHandled)
{
	SrcLine sl = slineNew(spos, indent, text);
	sl->isSysCmd = true; sl->sysCmdHandled = isHandled;
	return sl;
}
static SrcLineList v_cons(SrcLine s, SrcLineList l)
{
	SrcLineList c = &v_cell[v_line];
	V_ASSERT(!v_cell_used[v_line], "harness storage model: one list cell per input line");
	v_cell_used[v_line] = 1;
	c->first = s; c->rest = l;
	return c;
}
/* last cell of a list, by walking */
static SrcLineList v_last(SrcLineList l)
{
	int j;
	if (!l) return 0;
	for (j = 0; j < NCELL && l->rest; j++) l = l->rest;
	V_ASSERT(l->rest == 0, "source-line list is acyclic");
	return l;
}
/*
 * listLastCons as seen by include.c, whose only use is isThisEndifLine(): car(listLastCons(sll))->isEndifLine.
 * The model returns a read-only VIEW of the last cell (a static cell whose element carries the isEndifLine flag of the
 * real last element).  The flag is computed by a case split over the statically allocated cells (cell i always holds
 * source line i), so that it stays a constant in symbolic execution whenever no #endif line is involved.
 */
static struct srcLine v_viewsl;
static struct SrcLineListCons v_view = { &v_viewsl, 0 };
static SrcLineList v_lastcons(SrcLineList l)
{
	SrcLineList c = v_last(l); int i, e = 0;
	if (!l) return 0;
	for (i = 0; i < NCELL; i++)
		if (c == &v_cell[i]) { V_ASSERT(v_cell[i].first == &v_sl[i], "cell i holds source line i"); e = v_sl[i].isEndifLine; }
	v_viewsl.isEndifLine = e;
	return &v_view;
}
static SrcLineList v_nconcat(SrcLineList a, SrcLineList b)
{
	if (!a) return b;
	v_last(a)->rest = b;
	return a;
}
static struct SrcLine_listOpsStruct v_slops = { .Cons = v_cons, .LastCons = v_lastcons, .NConcat = v_nconcat };
struct SrcLine_listOpsStruct const *SrcLine_listPointer = &v_slops;

static struct StringListCons v_assertP = { "P", 0 };
static Bool v_member(StringList l, String s, Bool (*eq)(String, String))
{
	int i;
	for (i = 0; i < 2 && l; i++, l = l->rest) if (eq(l->first, s)) return true;
	return false;
}
static struct String_listOpsStruct v_strops = { .Member = v_member };
struct String_listOpsStruct const *String_listPointer = &v_strops;

/* ---- buffer for the current line: typed static object ---- */
static struct buffer v_buf;
static char v_bufchars[16];
static struct fluidCell v_fluid[NLINE + 2];

V_ENTRY(h_incl_if, unsigned char kind[NLINE + 1];)
{
	SrcLineList sll; int i, depth = 0, want_text = 0, got_text = 0, want_else = 0, want_elseif = 0, want_endif = 0;
	/* reference model: stack of (taken-a-branch-before, currently-including) */
	int st_incl[NLINE + 1], st_taken[NLINE + 1], st_else[NLINE + 1], odd = 0, stopped = 0;
	{
		int sh = SHAPE;
		for (i = 0; i < NLINE; i++, sh /= 4) {
			int k = in->kind[i];
			v_class[i] = sh % 4;
			if (v_class[i] == 0) V_ASSUME(k == L_TEXT);
			if (v_class[i] == 1) V_ASSUME(k == L_IFP || k == L_IFQ);
			if (v_class[i] == 2) V_ASSUME(k == L_ENDIF);
			if (v_class[i] == 3) V_ASSUME(k == L_ELIFP || k == L_ELIFQ || k == L_ELSE || k == L_UNKNOWN);
			v_kind[i] = in->kind[i];
		}
	}
	v_n = NLINE; v_line = 0; v_col = 0;
	v_buf.pos = 0; v_buf.argc = sizeof v_bufchars; v_buf.argv = (UByte *) v_bufchars;
	inclBuffer = &v_buf;
	fluidStack = v_fluid; fluidLimit = NLINE + 2; fluidLevel = 0; scopeLevel = 0;
	localAssertList = &v_assertP;
	ifState = NoIf;
	fileState.lineNumber = 0; fileState.infile = 0; fileState.curFname = 0;

	sll = inclFileContents();

	/* ---- reference ---- */
	st_incl[0] = 1; st_taken[0] = 0;
	for (i = 0; i < NLINE; i++) if (!stopped) {
		int k = in->kind[i];
		switch (k) {
		case L_TEXT: if (st_incl[depth]) want_text++; break;
		case L_IFP: case L_IFQ: {
			int enc = st_incl[depth];
			depth++;
			st_incl[depth]  = enc && k == L_IFP;
			st_taken[depth] = !enc || k == L_IFP;            /* a skipped #if never takes a branch */
			st_else[depth]  = 0;
			break; }
		case L_ELIFP: case L_ELIFQ:
			if (depth == 0) { want_elseif++; break; }
			if (st_else[depth]) odd = 1;                     /* #elseif after #else: no documented meaning */
			if (st_taken[depth]) st_incl[depth] = 0;
			else if (k == L_ELIFP) { st_incl[depth] = 1; st_taken[depth] = 1; }
			break;
		case L_ELSE:
			if (depth == 0) { want_else++; break; }
			if (st_else[depth]) odd = 1;                     /* second #else: no documented meaning */
			st_else[depth] = 1;
			if (st_taken[depth]) st_incl[depth] = 0;
			else { st_incl[depth] = 1; st_taken[depth] = 1; }
			break;
		case L_ENDIF:
			if (depth == 0) { want_endif++; stopped = 1; break; }   /* diagnosed; the includer stops reading this file */
			depth--;
			break;
		default: break;
		}
	}
	/* ---- obligations ---- */
	V_ASSERT((depth > 0) == (v_err_eof > 0), "an #if still open at end of file is diagnosed (and only then)");
	V_ASSERT(v_err_else == want_else && v_err_elseif == want_elseif && v_err_endif == want_endif,
	         "#else / #elseif / #endif outside any #if are each diagnosed");
	V_ASSERT(v_err_other == 0, "no other diagnostic for these line forms");
	for (i = 0; i < NCELL && sll; i++, sll = sll->rest)
		if (!sll->first->isSysCmd) got_text++;
	V_ASSERT(sll == 0, "result list is finite");
	V_ASSERT(v_view.rest == 0 && v_view.first == &v_viewsl, "the last-cell view was only read");
	V_ASSERT(odd || got_text == want_text, "exactly the text lines of the taken branches are included");
}
