/*
 * C16 -- generated C is valid ...: distinct entities never get the same C name -- the name-construction kernel of
 * genc.c (gc0InitSpecialChars, gc0ValidIdInBuf, gc0IdHashInBuf; file-local, so genc.c is #included).
 *   h_mangle_inj : without a length limit, two different names (printable ASCII) never mangle to the same text
 *   h_mangle_len : with a length limit L >= 1 the mangled text never exceeds L characters
 *   h_mangle_safe: every byte value in a name is handled without an out-of-bounds table access and the text produced
 *                  consists of C identifier characters only
 */
#include "genc.c"
#include "buffer.c"
#include "verif.h"

#ifndef NLEN
#define NLEN 3
#endif
/* bufAddn copies the replacement text with memmove; CBMC's built-in model of memmove with a symbolic source string and length
 * produced counterexamples that do not reproduce natively, so the (short) copy is spelled out */
void *memmove(void *d, const void *s, size_t n)
{
	size_t i;
	for (i = 0; i < 12; i++) if (i < n) ((char *) d)[i] = ((const char *) s)[i];
	V_ASSERT(n <= 12, "harness memmove model: replacement texts are at most 12 characters");
	return d;
}
static UByte v_o1[60], v_o2[60];
static struct buffer v_b1, v_b2;
static Buffer mk(struct buffer *b, UByte *mem) { b->argv = mem; b->argc = 60; b->pos = 0; return b; }

static void load(char *d, const unsigned char *s, int printable)
{
	int i;
	for (i = 0; i < NLEN; i++) { d[i] = (char) s[i]; if (printable && s[i]) V_ASSUME(s[i] >= 0x21 && s[i] <= 0x7e); }
	d[NLEN] = 0;
}

V_ENTRY(h_mangle_inj, unsigned char a[NLEN]; unsigned char b[NLEN];)
{
	char sa[NLEN + 1], sb[NLEN + 1]; int la, lb, i, same = 1, eq = 1;
	load(sa, in->a, 1); load(sb, in->b, 1);
	V_ASSUME(sa[0] && sb[0]);
	for (i = 0; i < NLEN; i++) { if (sa[i] != sb[i]) eq = 0; if (!sa[i] || !sb[i]) break; }
	V_ASSUME(!eq);                                    /* two different names */
	gc0InitSpecialChars();
	genCSetIdLen(0);
	la = gc0ValidIdInBuf(mk(&v_b1, v_o1), sa);
	lb = gc0ValidIdInBuf(mk(&v_b2, v_o2), sb);
	if (la != lb) same = 0;
	for (i = 0; i < 8 * NLEN; i++) if (i < la && v_o1[i] != v_o2[i]) same = 0;
	V_ASSERT(!same, "different names get different C identifiers (no length limit)");
}

V_ENTRY(h_mangle_len, unsigned char a[NLEN]; int idlen;)
{
	char sa[NLEN + 1]; int la;
	load(sa, in->a, 1);
	V_ASSUME(in->idlen >= 1 && in->idlen <= 40);
	gc0InitSpecialChars();
	genCSetIdLen(in->idlen);
	la = gc0ValidIdInBuf(mk(&v_b1, v_o1), sa);
	V_ASSERT(la <= in->idlen, "mangled name never exceeds the identifier length limit");
	V_ASSERT(v_o1[la] == 0, "mangled name is NUL-terminated");
}

V_ENTRY(h_mangle_safe, unsigned char a[NLEN];)
{
	char sa[NLEN + 1]; int la;
	load(sa, in->a, 0);
	gc0InitSpecialChars();
	genCSetIdLen(0);
	la = gc0ValidIdInBuf(mk(&v_b1, v_o1), sa);
	V_ASSERT(la >= 0 && la <= 8 * NLEN, "mangled length within bound for arbitrary bytes");
	{	/* whatever the name bytes are, the text must consist of C identifier characters only */
		int i, ok = 1;
		for (i = 0; i < 8 * NLEN; i++) if (i < la) {
			UByte c = v_o1[i];
			if (!((c >= 'A' && c <= 'Z') || (c >= 'a' && c <= 'z') || (c >= '0' && c <= '9') || c == '_')) ok = 0;
		}
		V_ASSERT(ok, "mangled name consists of C identifier characters only");
		V_ASSERT(v_o1[la] == 0, "mangled name is NUL-terminated");
	}
}
