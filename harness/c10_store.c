/*
 * C10 -- the storage manager never hands out overlapping memory: the size-class and address arithmetic of the
 * fixed-size allocator (store.c; everything is file-local, so store.c is #included).
 *
 *   h_store_tables : after the real stoInit() (table initialisation; the OS hands out no memory, which stoInit
 *                    tolerates), for EVERY request size n <= FixedSizeMax the size class chosen is large enough, is
 *                    the class the index table names, and is the smallest class that fits; for EVERY class and EVERY
 *                    byte offset d inside a page the fast "which piece does this address belong to" computation
 *                    (shift by fixedSizeLog, or the division lookup table stoDivTable) equals d / size, and every
 *                    negative fixedSizeLog entry names a distinct existing lookup table.
 *   h_store_section: sectPrepare() on a fresh page group of FixedSizePgGroup (= 1) pages, as piecesGetFixed calls it,
 *                    for one size class (-DCLS, all 12 enumerated): the
 *                    per-piece info bytes end before the data area begins, the data area ends exactly at the end of
 *                    the page group, every piece is word aligned, and for EVERY address inside the data area the
 *                    piece index used by stoAlloc/stoFree/the collector is (address - data) / size and < piece count
 *                    -- two distinct pieces never share an info byte or a byte of memory.
 */
#include "store.c"
#include "verif.h"

/* the operating system layer */
String osGetEnv(String name) { (void) name; return 0; }
struct osMemMap **osMemMap(int mask) { (void) mask; return 0; }
void osAllocAlignHint(unsigned a) { (void) a; }
Pointer osAlloc(ULong *pnbytes) { (void) pnbytes; return 0; }

V_ENTRY(h_store_tables, unsigned long n; unsigned cls; unsigned long d; unsigned cls2;)
{
	Length sz, ix; int lg;
	stoInit();
	/* ---- request size -> size class ---- */
	V_ASSUME(in->n <= FixedSizeMax);
	sz = fixedSizeFor[in->n]; ix = fixedSizeIndexFor[in->n];
	V_ASSERT(ix < FixedSizeCount, "size-class index within the class table");
	V_ASSERT(fixedSize[ix] == sz, "fixedSizeFor and fixedSizeIndexFor name the same class");
	V_ASSERT(sz >= in->n, "the class chosen for a request is at least as large as the request");
	V_ASSERT(ix == 0 || fixedSize[ix - 1] < in->n, "the class chosen is the smallest one that fits");
	V_ASSERT(sz % sizeof(Pointer) == 0, "class sizes are whole words");
	/* ---- address -> piece index ---- */
	V_ASSUME(in->cls < FixedSizeCount && in->d < PgSize);
	lg = fixedSizeLog[in->cls];
	if (lg >= 0)
		V_ASSERT(fixedSize[in->cls] == (sizeof(Pointer) << lg), "non-negative fixedSizeLog entry is the exact base-2 log of the class size in words");
	else {
		int t = -(lg + 1);
		V_ASSERT(t >= 0 && t < (int) (sizeof stoDivTable / sizeof stoDivTable[0]), "negative fixedSizeLog entry names an existing division table");
		V_ASSERT(stoDivTable[t][in->d] == (short) (in->d / fixedSize[in->cls]), "division lookup table holds offset / class size");
		V_ASSUME(in->cls2 < FixedSizeCount && in->cls2 != in->cls);
		V_ASSERT(fixedSizeLog[in->cls2] != lg, "two classes never share a division table");
	}
}

#ifndef CLS
#define CLS 0
#endif
#ifndef NPG
#define NPG 1
#endif
static union { Page pg[NPG]; MostAlignedType align; } v_area;

V_ENTRY(h_store_section, unsigned long d; unsigned char tag;)
{
	Section *x; Length sz = fixedSize[CLS], nq, qi; char *p, *base = (char *) v_area.pg;
	stoInit();
	stoMustTag = in->tag & 1;
	x = sectPrepare(v_area.pg, NPG, sz, true);
	nq = x->qmCount;
	V_ASSERT(nq > 0, "a fixed section holds at least one piece");
	V_ASSERT((char *) &x->info[nq] <= (char *) x->data, "per-piece info bytes end before the data area starts");
	V_ASSERT((char *) x->data + nq * sz == base + NPG * PgSize, "the data area ends exactly at the end of the page group");
	V_ASSERT(((char *) x->data - base) % sizeof(Pointer) == 0, "pieces are word aligned");
	V_ASSERT(x->qmSize == (short) sz && x->qmSizeIndex == CLS && x->isFixed, "section header records the class");
	V_ASSUME(in->d < nq * sz);
	p = (char *) x->data + in->d;
	qi = x->qmLog ? qmLogNo(p, x) : qmDivNo(p, x);
	V_ASSERT(qi == in->d / sz, "piece index of an address = (address - data) / size");
	V_ASSERT(qi < nq, "piece index within the section");
}
