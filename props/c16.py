"""C16 -- distinct entities never get the same C name: name-construction kernel (slice)."""
from vlib.core import Query

INFO = {
    "claim": "Slice: the identifier mangler of genc.c (gc0InitSpecialChars + gc0ValidIdInBuf), which turns every Aldor name into the C "
             "identifier text, handles EVERY byte value of a name without an out-of-bounds table access, produces a NUL-terminated text "
             "made of C identifier characters only ([A-Za-z0-9_]) and never exceeds a given identifier length limit; decided by CBMC on the real genc.c. Distinct 1-character names get distinct texts; injectivity beyond that, the "
             "compile-and-link clauses of C16 and the hashed global-name scheme are NOT decided.",
    "level": "model_checking",
    "bounds": "names of 1 character (quick) / 2 characters (thorough), every byte value; identifier length limits 1..40",
    "outside": "gcc acceptance of the emitted files, -Cold/-Cstandard, splitting (smax), line directives, the G_<hash>_<name> scheme for "
               "globals (collisions are possible by construction), names longer than the bound (3 characters: no verdict, SAT back end out of memory); "
               "injectivity for names of 2 or more characters (SAT back end out of memory)",
    "assumptions": ["<ctype.h> tables are the real glibc C-locale ones", "output buffer is a 60-byte static array",
                    "memmove is a byte loop defined by the harness (CBMC's built-in model with a symbolic source string gave counterexamples that did not reproduce)"],
}


def queries(ctx, extra):
    inc = ctx.ctype_tables()
    qs = []
    import re
    n_ent = len(re.findall(r'^ \{.*?,\s*(?:".*?"|0)\},?\s*$', ctx.read_src("genc.c").split("struct ccSpecCharId_info ccSpecCharIdTable[] = {")[1].split("};")[0], re.M))
    ctx.patch_src("genc.h", "ccSpecCharIdTable[];", "ccSpecCharIdTable[%d];" % n_ent,
                  "incomplete-array declaration of ccSpecCharIdTable trips CBMC invariant boolbv_map.cpp:68; it is given the number of "
                  "entries counted in the definition in genc.c (%d)" % n_ent)
    for n, tiers in ((1, ("quick", "thorough")), (2, ("thorough",))):
        for e in ("h_mangle_inj", "h_mangle_len", "h_mangle_safe"):
            if e == "h_mangle_inj" and n > 1:
                continue      # 2-character names: the SAT back end runs out of 14 GB
            qs.append(Query(name="%s_%d" % (e[2:], n), harness="c16_names.c", entry=e, srcs=["strops.c"], includes=[inc],
                            stubs=["stubs.c", "stubs_ctype.c", "stubs_print.c"], defs=["-DNLEN=%d" % n, "-DV_STO_NOFREE"],
                            unwind=260, timeout=500, mem_gb=14, object_bits=12, flags=["--max-field-sensitivity-array-size", "400"], tiers=tiers, group="name mangling",
                            bound="names of <= %d characters" % n))
    return qs
