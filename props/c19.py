"""C19 -- floating-point constants keep their exact value."""
from vlib.core import Query

INFO = {
    "claim": "Every single and double bit pattern survives the portable .ao float encoding bit-for-bit (NaN stays NaN with its sign), and dissemble/assemble is the identity, decided by the solver over the full 2^32 / 2^64 input domains with loop bounds discharged by unwinding assertions; bounded model checking of xfloat.c/util.c, not a proof.",
    "level": "model_checking",
    "bounds": "no bound on values: every 32-bit and every 64-bit pattern is a symbolic input; loops in xfloat.c/util.c are "
              "bounded by the byte width of the formats and discharged by unwinding assertions (unwind 70)",
    "outside": "correctness of libc atof/strtod itself; decimal printing; non-IEEE host formats (the CC_* configuration of this build is what is encoded)",
    "assumptions": [
        "host float formats as configured by cport.h for this platform (IEEE little endian)",
        "stubs: _do_assert/abort reached => violation; fprintf/debug printing have no effect",
    ],
}

XF = ["xfloat.c", "util.c"]
DEFS = ["-DV_NO_BUG_STUB"]


def queries(ctx, extra):
    qs = []
    for e, b in [("h_xsf_roundtrip", "all 2^32 single patterns"), ("h_xdf_roundtrip", "all 2^64 double patterns"),
                 ("h_sf_disasm", "all 2^32 single patterns"), ("h_df_disasm", "all 2^64 double patterns"),
                 ("h_xsf_disasm", "all 2^48 portable single images"), ("h_xdf_disasm", "all 2^80 portable double images")]:
        qs.append(Query(name=e[2:], harness="c19_xfloat.c", entry=e, srcs=XF, defs=DEFS, unwind=70,
                        timeout=300, bound=b, group="xfloat codec"))
    return qs
