"""C17 -- damaged library files are refused, never silently used."""
from vlib.core import Query

INFO = {
    "claim": "On an arbitrary byte array of arbitrary length presented as an .ao file, the header/section reader of lib.c and the FOAM "
             "decoder of foam.c perform no out-of-bounds access and reach no internal-error report, short files are refused, an accepted "
             "header only describes sections that lie inside the file, and decoders are only handed bytes that were read from the file. "
             "Where the unchanged code violates this the failing (function, check) pairs are listed in known_findings.txt.",
    "level": "model_checking",
    "bounds": "file length 0..190 bytes (header is 174), all contents; FOAM buffers <= 12 bytes",
    "outside": "'produces exactly the outputs of the intact file' (program level); symbol-meaning and type-form sections; archives (.al); .fm text",
    "assumptions": [
        "stdio modelled over a symbolic byte array with ISO C short-read semantics; fseek never fails",
        "comsgError records an error and returns (as in the compiler); comsgFatal does not return",
        "allocation never fails, whatever the size",
    ],
}


def queries(ctx, extra):
    qs = []
    for e in ("h_lib_header", "h_lib_section"):
        qs.append(Query(name=e[2:], harness="c17_lib.c", entry=e, srcs=["buffer.c"], defs=["-DFLEN=190", "-DV_NO_BUG_STUB"],
                        unwind=24, unwindset=["load.0:192", "fread.0:192", "strAlloc.0:192"], timeout=900, mem_gb=12, object_bits=12,
                        group=".ao header/sections", bound="file of 0..190 symbolic bytes"))
    for nb, tiers in ((3, ("quick", "thorough")), (5, ("thorough",))):
        qs.append(Query(name="foam_decode_%d" % nb, harness="c17_foam.c", entry="h_foam_decode",
                        srcs=["foam.c", "buffer.c", "bigint.c", "xfloat.c", "util.c"], remove_bodies=["foamInit"],
                        defs=["-DNB=%d" % nb, "-DV_NO_BUG_STUB"], unwind=nb + 3, unwindset=["foamFrBuffer:%d" % nb],
                        timeout=1800, mem_gb=12, object_bits=12, tiers=tiers, unwind_fail_is_violation=False,
                        group="FOAM decoder", bound="section of 1..%d symbolic bytes" % nb))
    return qs
