"""C17 -- damaged library files are refused, never silently used."""
from vlib.core import Query

INFO = {
    "claim": "On an arbitrary byte array of arbitrary length presented as an .ao file, the header/section reader of lib.c "
             "performs no out-of-bounds access and reach no internal-error report, short files are refused, an accepted "
             "header only describes sections that lie inside the file, and decoders are only handed bytes that were read from the file. "
             "Where the unchanged code violates this the failing (function, check) pairs are listed in known_findings.txt.",
    "level": "model_checking",
    "bounds": "file length 0..190 bytes (header is 174), all contents",
    "outside": "'produces exactly the outputs of the intact file' (program level); symbol-meaning and type-form sections; archives (.al); .fm text",
    "assumptions": [
        "stdio modelled over a symbolic byte array with ISO C short-read semantics; fseek never fails",
        "comsgError records an error and returns (as in the compiler); comsgFatal does not return",
        "allocation never fails, whatever the size",
    ],
}


def queries(ctx, extra):
    qs = []
    for e in ("h_lib_header", "h_lib_section"):
        qs.append(Query(name=e[2:], harness="c17_lib.c", entry=e, srcs=["buffer.c"], defs=["-DFLEN=190", "-DV_NO_BUG_STUB"],
                        unwind=24, unwindset=["load.0:192", "fread.0:192", "strAlloc.0:192"], timeout=900, mem_gb=12, object_bits=12,
                        group=".ao header/sections", bound="file of 0..190 symbolic bytes"))
    # foamFrBuffer on arbitrary bytes (harness/c17_foam.c): no verdict for 3 symbolic bytes in 1800 s (symbolic tag =>
    # every decoder case x recursion); not registered, not claimed.
    for nm, d in (("ar_longname", ["-DINDIRECT"]), ("ar_directname", [])):
        qs.append(Query(name=nm, harness="c17_archive.c", entry="h_ar_longname", stubs=["stubs.c", "stubs_print.c"],
                        defs=["-DV_NO_STO_STUBS"] + d, unwind=18, unwindset=["body_h_ar_longname.1:46"], timeout=600, mem_gb=10,
                        group="archive member names",
                        bound="one GNU-format member header, every 16-byte name field that %s with '/', name table of 12 arbitrary characters"
                              % ("starts" if d else "does not start")))
    return qs
