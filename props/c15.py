"""C15 -- diagnostics point at the right file, line and column (packed positions + global line table)."""
import itertools
from vlib.core import Query

INFO = {
    "claim": "Packed source positions return the exact line for every line number and column offset, columns are exact within the 14-bit field and independent of the line, ordering is lexicographic, and the global line table maps every position to the file and local line of its segment for all numberings of 2-4 segments; decided by CBMC on the real srcpos.c.",
    "level": "model_checking",
    "bounds": "pack/unpack/order: every line number below 2^48 (the whole field) x every column 0..16383 x every non-negative int "
              "column offset, no bound; line table: 3 segments (quick) / 4 segments (thorough) over 3 files, each started by a file "
              "switch or a #line registration, every numbering with local and global lines below 2^40",
    "outside": "message sorting and source-excerpt printing in comsg.c; the includer's own bookkeeping of fileState.lineNumber "
               "(include.c) is represented by the sequence of sposNew/sposGrowGloLineTbl calls it makes, not executed",
    "assumptions": [
        "fnameCopy/fnameFree/fnameEqual modelled by pointer identity (srcpos.c treats file names as opaque)",
        "stoAlloc/stoResize modelled by a 64-word bump arena with in-place growth of the last block (stubs.c V_STO_ARENA)",
        "global lines are registered in increasing order and a segment that is not introduced by #line differs in file from "
        "its predecessor (how include.c drives srcpos.c)",
    ],
}


def queries(ctx, extra):
    D = []
    qs = [
        Query(name="pack", harness="c15_srcpos.c", entry="h_spos_pack", srcs=["srcpos.c"], defs=D, unwind=4,
              bound="all lines < 2^48-1, columns <= 16383, offsets 0..INT_MAX", group="pack/unpack"),
        Query(name="order", harness="c15_srcpos.c", entry="h_spos_order", srcs=["srcpos.c"], defs=D, unwind=4,
              bound="all (line, column) pairs", group="order"),
        Query(name="spstack", harness="c15_srcpos.c", entry="h_spstack", srcs=["srcpos.c"], defs=D, unwind=4,
              bound="all positions", group="pack/unpack"),
    ]
    for nseg, more, tiers, to in ((2, 1, ("quick", "thorough"), 300), (3, 0, ("quick", "thorough"), 300),
                                  (3, 1, ("thorough",), 900), (4, 0, ("thorough",), 1800)):
        for files in rgs(nseg, 3):
            for bl in itertools.product((0, 1), repeat=nseg):
                if any((not bl[i]) and files[i] == files[i - 1] for i in range(1, nseg)):
                    continue
                nm = "table%d%s_%s_%s" % (nseg, "m" if more else "", "".join("ABC"[f] for f in files), "".join("fL"[b] for b in bl))
                qs.append(Query(name=nm, harness="c15_srcpos.c", entry="h_spos_table", srcs=["srcpos.c"], solver="cadical",
                                defs=D + ["-DV_STO_ARENA=64", "-DNSEG=%d" % nseg, "-DCASE_FILES=" + ",".join(map(str, files)),
                                          "-DCASE_BYLINE=" + ",".join(map(str, bl))] + ([] if more else ["-DCASE_NOMORE"]),
                                unwind=2 * nseg + 3, timeout=to, tiers=tiers, group="line table",
                                bound="%d segments, files %s, started by %s (f=file switch, L=#line)%s; all numbers < 2^40 symbolic"
                                      % (nseg, files, bl, "; a later line of every segment is announced too" if more else "")))
    return qs


def rgs(n, kmax):
    """restricted growth strings = set partitions of n positions into <= kmax blocks (files up to renaming)"""
    out = []

    def rec(pre, m):
        if len(pre) == n:
            out.append(tuple(pre))
            return
        for v in range(min(m + 1, kmax - 1) + 1):
            rec(pre + [v], max(m, v))
    rec([0], 0)
    return out
