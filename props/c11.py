"""C11 -- big-integer arithmetic is exact (bigint.c, foam_i.c)."""
from vlib.core import Query

INFO = {
    "claim": "The digit-level algorithms of bigint.c (add, subtract, schoolbook multiply, Knuth division with qhat correction and "
             "add-back, single-digit multiply/divide, shifts) and the bint API built on them (sign handling, immediate/stored "
             "normalisation, comparison, length, bit test, conversions, decimal/radix strings) return the mathematically exact result "
             "for every digit pattern within the stated operand sizes; decided by CBMC against wide machine arithmetic.",
    "level": "model_checking",
    "bounds": "production radix 2^32: add/sub/compare/shift/single-digit mul+div <= 3 digits (96 bits), multiply <= 2x2 digits; "
              "radix 2^4 via the ALDOR_VERIF_BINT_LG_RADIX hook (same algorithm text, digits masked): multiply <= 3x3, Knuth division "
              "<= 3/2 digits quick, 4/2, 4/3 and 5/2 thorough; API level: operands are immediates (whole 62-bit range) or 2-3 digit stored values",
    "outside": "operands longer than the digit bounds; the radix-2^4 runs say nothing about constants specific to 2^32; floating conversions; "
               "libc strtol/sprintf/log themselves",
    "assumptions": [
        "stoAlloc/stoFree modelled by malloc/free or the bump arena, allocation never fails",
        "operands satisfy the representation invariant stated at the top of bigint.c (normalised: stored => top digit != 0 and outside the immediate range)",
        "reaching _do_assert/bug/abort is reported as a violation",
    ],
}

R4 = ["-DALDOR_VERIF", "-DALDOR_VERIF_BINT_LG_RADIX=4"]


def kq(name, entry, ac, bc, radix4, **kw):
    bits = (ac + bc + 1) * (4 if radix4 else 32)
    defs = ["-DAC=%d" % ac, "-DBC=%d" % bc, "-DRTW=%d" % (32 if bits <= 32 else 64 if bits <= 64 else 128)] + (R4 if radix4 else [])
    kw.setdefault("unwind", 12)
    kw.setdefault("timeout", 300)
    return Query(name="k%s_%s_%dx%d" % ("4" if radix4 else "32", name, ac, bc), harness="c11_kernel.c", entry=entry,
                 defs=defs, group="kernel radix 2^%d" % (4 if radix4 else 32),
                 bound="%d-digit by %d-digit operands, all digit values, radix 2^%d" % (ac, bc, 4 if radix4 else 32), **kw)


def queries(ctx, extra):
    qs = []
    # ---- production radix, linear kernels
    for ac in (1, 2, 3):
        for bc in range(1, ac + 1):
            qs.append(kq("plus", "h_iint_plus", ac, bc, False))
            qs.append(kq("minus", "h_iint_minus", ac, bc, False))
        if ac <= 2:
            qs.append(kq("timesPlusS", "h_iint_timesPlusS", ac, 1, False, solver="kissat", timeout=300 if ac == 1 else 3600,
                         tiers=("quick", "thorough") if ac == 1 else ("thorough",)))
        qs.append(kq("shift", "h_iint_shift", 1, ac, False, unwind=66, timeout=900, tiers=("quick", "thorough") if ac == 1 else ("thorough",)))
    qs.append(kq("times", "h_iint_times", 1, 1, False, solver="kissat"))
    qs.append(kq("times", "h_iint_times", 2, 1, False, solver="kissat", tiers=("thorough",), timeout=3600))
    # ---- radix 2^4: the multiplicative algorithms
    for ac in (1, 2, 3, 4):
        for bc in range(1, ac + 1):
            if ac <= 3:
                qs.append(kq("plus", "h_iint_plus", ac, bc, True))
                qs.append(kq("minus", "h_iint_minus", ac, bc, True))
                qs.append(kq("times", "h_iint_times", ac, bc, True, solver="cadical", timeout=3600 if (ac, bc) == (3, 3) else 300,
                             tiers=("thorough",) if (ac, bc) == (3, 3) else ("quick", "thorough")))
        qs.append(kq("timesPlusS", "h_iint_timesPlusS", ac, 1, True))
        qs.append(kq("divideS", "h_iint_divideS", ac, 1, True, solver="cadical"))
        if ac <= 3:
            qs.append(kq("shift", "h_iint_shift", 1, ac, True, unwind=14))
    for ac, bc, tiers, to in ((1, 1, 0, 300), (2, 1, 0, 300), (3, 1, 0, 300), (1, 2, 0, 300), (2, 2, 0, 300), (3, 2, 0, 600), (2, 3, 0, 300),
                              (3, 3, 0, 600), (4, 2, 1, 1800), (4, 3, 1, 1800), (5, 2, 1, 3600), (4, 1, 1, 600)):
        qs.append(kq("divide", "h_iint_divide", ac, bc, True, solver="cadical", timeout=to, unwind=max(12, ac + bc + 6),
                     tiers=("thorough",) if tiers else ("quick", "thorough")))
    return qs
