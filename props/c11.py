"""C11 -- big-integer arithmetic is exact (bigint.c, foam_i.c)."""
from vlib.core import Query

INFO = {
    "claim": "The digit-level algorithms of bigint.c (add, subtract, schoolbook multiply, Knuth division with qhat correction and "
             "add-back, single-digit multiply/divide, shifts) and the bint API built on them (sign handling, immediate/stored "
             "normalisation, comparison, length, bit test, conversions, decimal/radix strings) return the mathematically exact result "
             "for every digit pattern within the stated operand sizes; decided by CBMC against wide machine arithmetic.",
    "level": "model_checking",
    "bounds": "production radix 2^32: add/sub/compare/shift/single-digit mul+div <= 3 digits (96 bits), multiply <= 2x2 digits; "
              "radix 2^4 via the ALDOR_VERIF_BINT_LG_RADIX hook (same algorithm text, digits masked): multiply <= 3x2, Knuth division "
              "<= 3/3 digits quick, 4/2 and 5/2 thorough; API level: operands are immediates (whole 62-bit range) or 2-3 digit stored values",
    "outside": "operands longer than the digit bounds; the radix-2^4 runs say nothing about constants specific to 2^32; floating conversions; "
               "libc strtol/sprintf/log themselves",
    "assumptions": [
        "stoAlloc/stoFree modelled by malloc/free or the bump arena, allocation never fails",
        "operands satisfy the representation invariant stated at the top of bigint.c (normalised: stored => top digit != 0 and outside the immediate range)",
        "reaching _do_assert/bug/abort is reported as a violation",
    ],
}

R4 = ["-DALDOR_VERIF", "-DALDOR_VERIF_BINT_LG_RADIX=4"]


def kq(name, entry, ac, bc, radix4, **kw):
    bits = (ac + bc + 1) * (4 if radix4 else 32)
    defs = ["-DAC=%d" % ac, "-DBC=%d" % bc, "-DRTW=%d" % (32 if bits <= 32 else 64 if bits <= 64 else 128)] + (R4 if radix4 else [])
    kw.setdefault("unwind", 12)
    kw.setdefault("timeout", 300)
    return Query(name="k%s_%s_%dx%d" % ("4" if radix4 else "32", name, ac, bc), harness="c11_kernel.c", entry=entry,
                 defs=defs, group="kernel radix 2^%d" % (4 if radix4 else 32),
                 bound="%d-digit by %d-digit operands, all digit values, radix 2^%d" % (ac, bc, 4 if radix4 else 32), **kw)


# (KA, KB, extra defs, name tag, query options)
# NOT REGISTERED (empty on purpose): h_mod of c11_api.c (bintMod/bintModi against 64/128-bit remainder, xxModDouble by
# contract) gave no verdict -- symbolic execution does not finish within 150-900 s for any representation pair
# (imm/imm included): bintMod negates its operands through bintNegate, whose result is an if-then-else of a stored and
# an immediate value, so every later IsImmed()/Placec() test forks and the Horner loop of bintModi and (for stored
# moduli) iintDivide are unrolled over symbolic digit counts.  See DESIGN.md section 6 (C11, bintMod).
MODQ = [
]


def queries(ctx, extra):
    qs = []
    # ---- production radix, linear kernels
    for ac in (1, 2, 3):
        for bc in range(1, ac + 1):
            qs.append(kq("plus", "h_iint_plus", ac, bc, False))
            qs.append(kq("minus", "h_iint_minus", ac, bc, False))
        if ac <= 1:     # 2x1 at the production radix: no verdict in 3600 s (kissat); stated as outside the claim
            qs.append(kq("timesPlusS", "h_iint_timesPlusS", ac, 1, False, solver="kissat", timeout=300))
        qs.append(kq("shift", "h_iint_shift", 1, ac, False, unwind=66, timeout=900, tiers=("quick", "thorough") if ac == 1 else ("thorough",)))
    qs.append(kq("times", "h_iint_times", 1, 1, False, solver="kissat"))
    # ---- radix 2^4: the multiplicative algorithms
    for ac in (1, 2, 3, 4):
        for bc in range(1, ac + 1):
            if ac <= 3:
                qs.append(kq("plus", "h_iint_plus", ac, bc, True))
                qs.append(kq("minus", "h_iint_minus", ac, bc, True))
                if (ac, bc) != (3, 3):      # 3x3 at radix 2^4: no verdict in 3600 s
                    qs.append(kq("times", "h_iint_times", ac, bc, True, solver="cadical"))
        qs.append(kq("timesPlusS", "h_iint_timesPlusS", ac, 1, True))
        qs.append(kq("divideS", "h_iint_divideS", ac, 1, True, solver="cadical"))
        if ac <= 3:
            qs.append(kq("shift", "h_iint_shift", 1, ac, True, unwind=14))
    for ac, bc, tiers, to in ((1, 1, 0, 300), (2, 1, 0, 300), (3, 1, 0, 300), (1, 2, 0, 300), (2, 2, 0, 300), (3, 2, 0, 600), (2, 3, 0, 300),
                              (3, 3, 0, 600), (4, 2, 1, 1800), (5, 2, 1, 3600), (4, 1, 1, 600)):   # 4/3: no verdict in 1800 s
        qs.append(kq("divide", "h_iint_divide", ac, bc, True, solver="cadical", timeout=to, unwind=max(12, ac + bc + 6),
                     tiers=("thorough",) if tiers else ("quick", "thorough")))
    # ---- API level, production radix
    KN = {0: "imm", 1: "p2", 2: "n2", 3: "p3", 4: "n3", 5: "ps", 6: "ns", 7: "immP", 8: "immN"}
    NEG = {1: 0, 2: 1, 3: 0, 4: 1, 5: 0, 6: 1, 7: 0, 8: 1}
    API_DEFS = ["-DV_NO_STO_STUBS"]
    MKSET = ["mk.0:12", "mk.1:12", "mk.2:12", "mk.3:12", "uintLength.0:66"]

    def aq(name, entry, ka, kb=None, **kw):
        defs = API_DEFS + ["-DKA=%d" % ka] + (["-DKB=%d" % kb] if kb is not None else [])
        kw.setdefault("unwind", 6)
        kw.setdefault("timeout", 300)
        kw["unwindset"] = MKSET + kw.get("unwindset", [])
        nm = "api_%s_%s%s" % (name, KN[ka], ("_" + KN[kb]) if kb is not None else "")
        return Query(name=nm, harness="c11_api.c", entry=entry, defs=defs, group="API radix 2^32",
                     bound="a: %s%s; all values of that representation (imm=immediate, pN/nN = stored +/- N digits, "
                           "ps/ns = small value in stored form)" % (KN[ka], ("; b: " + KN[kb]) if kb is not None else ""), **kw)

    qs.append(Query(name="api_new", harness="c11_api.c", entry="h_new", defs=API_DEFS, unwind=6, unwindset=MKSET, group="API radix 2^32",
                    bound="all 2^64 long values"))
    qs.append(Query(name="api_immedIfCan", harness="c11_api.c", entry="h_immedIfCan", defs=API_DEFS, unwind=6, unwindset=MKSET,
                    group="API radix 2^32", bound="all stored values of 0..3 digits, both signs"))
    for ka in range(5):
        qs.append(aq("lenbit", "h_lenbit", ka))
        qs.append(aq("shift", "h_shift", ka, timeout=900, tiers=("quick", "thorough") if ka in (0, 1) else ("thorough",)))
        qs.append(aq("placevS", "h_placevS", ka))
        if ka in (0, 1, 3):
            qs.append(aq("shiftrem", "h_shiftrem", ka))
        for kb in range(5):
            qs.append(aq("cmp", "h_cmp", ka, kb))
    # bintPlus/bintMinus/bintTimes: sign and representation concrete, so that the exact recursion depth of the
    # mutually recursive sign dispatch is known per query (P = nested bintPlus activations, M = bintMinus)
    # Measured on the unchanged tree (thorough run of 2026-10-04): immediates of all four sign combinations and stored
    # non-negative operands are decided in 10-100 s; stored operands with a negative sign (one level of the sign-dispatch
    # recursion over in-place negated stack objects) exhaust 14 GB in the SAT back end and are therefore NOT part of the
    # claim -- the sign dispatch itself is the same code and is decided through the immediate combinations.
    for ka in (1, 3, 5, 7, 8):
        for kb in (1, 3, 5, 7, 8):
            if (ka in (7, 8)) != (kb in (7, 8)):
                continue      # immediate with stored: the immediate is first converted by xintStore (h_new) = the ps kind
            na, nb = NEG[ka], NEG[kb]
            pP, pM = (1, 0) if (na and nb) else (0, 1) if (na or nb) else (0, 0)
            mP, mM = (0, 1) if (na and nb) else (1, 0) if (na or nb) else (0, 0)
            heavy = dict(timeout=1800, mem_gb=14, tiers=("quick", "thorough") if ka in (7, 8) else ("thorough",))
            qs.append(aq("plus", "h_plus", ka, kb, unwindset=["bintPlus:%d" % pP, "bintMinus:%d" % pM], **heavy))
            qs.append(aq("minus", "h_minus", ka, kb, unwindset=["bintPlus:%d" % mP, "bintMinus:%d" % mM], **heavy))
    # bintMod: dispatch between bintModi (Horner, single word) and bintDivide.  Representation and the bit length
    # class of the modulus are concrete per query, values symbolic.
    MOD = ["-DV_MOD"]
    for ka, kb, extra_defs, tag, kw in MODQ:
        q = aq("mod" + tag, "h_mod", ka, kb, **kw)
        q.defs = q.defs + MOD + extra_defs
        qs.append(q)
    return qs
