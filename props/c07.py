"""C07 -- the compiler is total on arbitrary source text: lexical kernels and the conditional-inclusion state machine (slice)."""
from vlib.core import Query

INFO = {
    "claim": "Slice: the keyword look-up (keyInit/keyTag/keyLongest), the interactive line-continuation test (scanIsContinued) and the separator clean-up of the linearizer (linXSep) perform no "
             "out-of-bounds access and reach no internal-error report on ANY NUL-terminated byte string within the length bound (all byte "
             "values incl. >= 0x80), and keyTag/keyLongest agree with the keyword table. The conditional-inclusion state machine of include.c "
             "(inclFileContents/inclLine/inclHandleIf/Elseif/Else/Endif with the real fluid-variable stack) terminates without a fault on every "
             "directive soup within the bound, diagnoses every #if left open at end of file and every #else/#elseif/#endif outside an #if, and "
             "includes exactly the text lines of the taken branches. The whole-compiler clauses of C07 (termination, exit "
             "status vs diagnostics, parser and later phases) are not decided.",
    "level": "model_checking",
    "bounds": "words of <= 5 bytes, first byte enumerated (101 values quick, all 255 thorough), the other bytes symbolic; two consecutive lines of <= 5 (quick) / 8 (thorough) bytes for scanIsContinued; "
              "token lists of <= 3 / 5 tokens of any tag for linXSep; sources of 0..3 (quick) / 0..4 (thorough) lines, each text, #if P/Q, #elseif P/Q, #else, "
              "#endif or an unknown directive -- all 4^n shapes, directive forms symbolic; at 4 lines the 4 shapes '#if, other directive, #endif, x' are "
              "excluded (no verdict)",
    "outside": "#include / #assert / #line directives and file handling of include.c, the contents of lines, the scanner proper (scan()), the rest of the linearizer, parser and all later phases; process-level exit status and diagnostics count",
    "assumptions": ["symInternConst (symbol interning) is an unmodelled external without effect on the keyword tables",
                    "strLength/strMatch of strops.c are the real ones",
                    "conditional inclusion: syscmd.c's directive recogniser and identifier scanner are replaced by their contract on the eight line forms; source-line "
                    "objects and list cells are typed static objects, one per input line; listLastCons is modelled as a read-only view of the last cell"],
}


def _base4(v, n):
    out = ""
    for _ in range(n):
        out = str(v % 4) + out
        v //= 4
    return out


def queries(ctx, extra):
    qs = []
    ctx.patch_src("token.h", "extern struct tok_info\ttokInfoTable[];", "extern struct tok_info\ttokInfoTable[TK_LIMIT - TK_START + 1];",
                  "the incomplete-array declaration of tokInfoTable (completed only by its later definition in token.c) trips CBMC invariant "
                  "value_set.cpp:1595; the declaration is given the size of the definition -- a size mismatch would be a compile error")
    quick_first = set(range(0x20, 0x7f)) | {0x01, 0x09, 0x7f, 0x80, 0xa0, 0xff}
    for first in range(1, 256):
        qs.append(Query(name="key_%02x" % first, harness="c07_lex.c", entry="h_key", srcs=["strops.c"], stubs=["stubs.c", "stubs_print.c"],
                        defs=["-DSLEN=5", "-DV_INCLUDE_TOKEN_C", "-DFIRST=%d" % first], unwind=12,
                        unwindset=["keyInit.0:130", "keyInit.1:80", "keyInit.2:80", "keyInit.3:80", "keyInit.4:80", "keyTag.0:40", "keyLongest.0:40"],
                        timeout=300, mem_gb=4, tiers=("quick", "thorough") if first in quick_first else ("thorough",), group="keywords",
                        bound="all words of <= 5 bytes starting with byte 0x%02x" % first))
    for n, tiers in ((5, ("quick", "thorough")), (8, ("thorough",))):
        qs.append(Query(name="iscont_%d" % n, harness="c07_lex.c", entry="h_iscont", srcs=["scan.c", "strops.c"], defs=["-DSLEN=%d" % n],
                        stubs=["stubs.c", "stubs_print.c"], unwind=n + 3, timeout=900, mem_gb=10, tiers=tiers, group="line continuation",
                        bound="two consecutive lines of <= %d bytes each" % n))
    for n, tiers in ((3, ("quick", "thorough")), (5, ("thorough",))):
        qs.append(Query(name="linxsep_%d" % n, harness="c07_lin.c", entry="h_linxsep", defs=["-DNTOK=%d" % n], stubs=["stubs.c", "stubs_print.c"],
                        unwind=n + 3, timeout=1800, mem_gb=8, tiers=tiers, group="linearizer", flags=["--max-field-sensitivity-array-size", "200"],
                        bound="token lists of 0..%d tokens, every token tag" % n))
    # conditional inclusion: every shape of 0..N lines (4^n shapes of length n), directive forms symbolic within the shape
    for n in range(0, 5):      # n = 5 (1024 shapes): 60 of them gave no verdict in 300 s under full load; not part of the claim
        for shape in range(4 ** n):
            if n == 4 and _base4(shape, n)[1:] == "231":
                continue      # #if / other directive / #endif / one more line: symbolic execution does not finish in 1200 s (the infeasible
                              # "this #endif does not close the level" branch is explored); 4 of 256 shapes, stated in the claim
            qs.append(Query(name="incl_if_%d_%0*d" % (n, max(n, 1), int(_base4(shape, n) or "0")), harness="c07_incl.c", entry="h_incl_if",
                            defs=["-DNLINE=%d" % n, "-DSHAPE=%d" % shape], srcs=["fluid.c"], stubs=["stubs.c", "stubs_print.c"],
                            unwind=2 * n + 8, timeout=600, mem_gb=6, tiers=("quick", "thorough") if n <= 3 else ("thorough",),
                            group="conditional inclusion",
                            bound="sources of exactly %d lines with shape %s (0 = text, 1 = #if, 2 = #endif, 3 = #elseif/#else/unknown directive; "
                                  "first line is the last digit); asserted-or-not of every #if/#elseif and the form of every class-3 line symbolic" % (n, _base4(shape, n) or "-")))
    return qs
