"""C05 -- saved intermediate forms lose nothing: FOAM byte codec slice."""
from vlib.core import Query

INFO = {
    "claim": "Slice: for the constant node kinds HInt, Byte, Char, Bool, SFlo, DFlo and character arrays (NOT SInt: no verdict) "
             "foamFrBuffer(foamToBuffer(node)) denotes the same value for ALL payload values and the decoder consumes exactly the bytes "
             "written; decided by CBMC on the real foam.c / buffer.c / xfloat.c. The file-level clauses of C05 (.ao/.fm/.al equality of "
             "generated outputs, split compilation) are not decided.",
    "level": "model_checking",
    "bounds": "all 16-bit / 8-bit / 1-bit values, all float and double bit patterns, character arrays of 4 (quick) / 8 "
              "(thorough) arbitrary characters",
    "outside": ".fm text writer/reader, archives, symbol-meaning and type-form sections, SInt constants and foamSIntReduce (symex of the 32-bit test + re-expression gave no verdict in 300-700 s), trees deeper than one node, BInt constants (their "
               "16-bit export/import is decided under C11), whole-file and split-compilation clauses",
    "assumptions": ["foamInit is not run (it only interns names)", "buffer is a 60-byte static array (no growth)",
                    "allocation never fails; blocks padded so that prefix-allocated union foam nodes can be read through the union type"],
}

SRCS = ["foam.c", "xfloat.c", "util.c", "bigint.c", "stdc.c", "int.c"]      # buffer.c is #included by the harness


def queries(ctx, extra):
    qs = []
    for e in ("bool", "char", "byte", "hint", "sflo", "dflo"):     # sint32 / sintwide entries exist in the harness but gave no verdict in 300-700 s
        qs.append(Query(name="codec_" + e, harness="c05_codec.c", entry="h_codec_" + e, srcs=SRCS, remove_bodies=["foamInit"],
                        defs=["-DV_STO_PAD=1024", "-DV_STO_NOFREE", "-DV_NO_ASSERT_STUB", "-DV_NO_BUG_STUB"], stubs=["stubs.c", "stubs_print.c"],
                        unwind=12, unwindset=["denote:8", "leaves32:8", "foamFrBuffer:3", "foamToBuffer:3"], object_bits=14, timeout=900, mem_gb=10,
                        solver="", group="FOAM codec", bound="all payload values of a %s constant" % e))
    for n, tiers in ((4, ("quick", "thorough")), (8, ("thorough",))):
        qs.append(Query(name="codec_arr%d" % n, harness="c05_codec.c", entry="h_codec_arr", srcs=SRCS, remove_bodies=["foamInit"],
                        defs=["-DV_STO_PAD=1024", "-DV_STO_NOFREE", "-DV_NO_ASSERT_STUB", "-DV_NO_BUG_STUB", "-DARRN=%d" % n],
                        stubs=["stubs.c", "stubs_print.c"], unwind=n + 4, object_bits=14, timeout=900, mem_gb=10, tiers=tiers,
                        group="FOAM codec", bound="character arrays of %d arbitrary characters" % n))
    return qs
