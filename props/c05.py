"""C05 -- saved intermediate forms lose nothing: FOAM byte codec slice."""
from vlib.core import Query

INFO = {
    "claim": "Slice: for the constant node kinds HInt, Byte, Char, Bool, SFlo, DFlo and character arrays "
             "foamFrBuffer(foamToBuffer(node)) denotes the same value for ALL payload values and the decoder consumes exactly the bytes "
             "written; the portable re-expression of machine integers wider than 31 bits (foamSIntReduce) denotes the same value for all 2^64 values and uses only 32-bit constants; decided by CBMC on the real foam.c / buffer.c / xfloat.c; an archive member referenced through the long-name table is found under exactly the name stored at that offset. The file-level clauses of C05 (.ao/.fm/.al equality of "
             "generated outputs, split compilation) are not decided.",
    "level": "model_checking",
    "bounds": "all 16-bit / 8-bit / 1-bit values, all float and double bit patterns, character arrays of 4 (quick) / 8 "
              "(thorough) arbitrary characters",
    "outside": ".fm text writer/reader, archives, symbol-meaning and type-form sections, the byte round trip of SInt constants and of the re-expression trees (no verdict in 600 s), trees deeper than one node, BInt constants (their "
               "16-bit export/import is decided under C11), whole-file and split-compilation clauses",
    "assumptions": ["foamInit is not run (it only interns names)", "buffer is a 60-byte static array (no growth)",
                    "allocation never fails; blocks padded so that prefix-allocated union foam nodes can be read through the union type"],
}

SRCS = ["foam.c", "xfloat.c", "util.c", "bigint.c", "stdc.c", "int.c"]      # buffer.c is #included by the harness


def queries(ctx, extra):
    qs = []
    for e in ("bool", "char", "byte", "hint", "sflo", "dflo"):     # sint32 / sintwide entries exist in the harness but gave no verdict in 300-700 s
        qs.append(Query(name="codec_" + e, harness="c05_codec.c", entry="h_codec_" + e, srcs=SRCS, remove_bodies=["foamInit"],
                        defs=["-DV_STO_PAD=1024", "-DV_STO_NOFREE", "-DV_NO_ASSERT_STUB", "-DV_NO_BUG_STUB"], stubs=["stubs.c", "stubs_print.c"],
                        unwind=12, unwindset=["foamFrBuffer:3", "foamToBuffer:3"], object_bits=14, timeout=900, mem_gb=10,
                        solver="", group="FOAM codec", bound="all payload values of a %s constant" % e))
    # wide machine integers: the portable re-expression (foamSIntReduce).  foamNew reads its variadic arguments with
    # va_arg(argp, Foam) although foamSIntReduce passes the builtin tag as a plain int: CBMC's typed va_list model reports
    # that as an out-of-bounds dereference; on the supported ABIs every variadic slot is a word, the replay does not
    # reproduce it, and it is unrelated to C05 -- recorded per query under excluded_checks.
    qs.append(Query(name="codec_sintwide", harness="c05_codec.c", entry="h_codec_sintwide", srcs=SRCS, remove_bodies=["foamInit"],
                    defs=["-DV_STO_PAD=1024", "-DV_STO_NOFREE", "-DV_NO_ASSERT_STUB", "-DV_NO_BUG_STUB"], stubs=["stubs.c", "stubs_print.c"],
                    unwind=12, object_bits=14, timeout=900, mem_gb=10, group="FOAM codec",
                    out_of_scope=[("foamNew", "", "the solver's pointer checks inside foamNew: an int is passed where foamNew reads a pointer-sized variadic argument "
                                   "(word-sized slots on the supported ABIs; not reproduced natively); the checks that follow it in foamNew get no verdict")],
                    bound="all 2^64 values of an SInt constant: foamSIntReduce(v) denotes v and every constant in it fits 32 bits"))
    for n, tiers in ((4, ("quick", "thorough")), (8, ("thorough",))):
        qs.append(Query(name="codec_arr%d" % n, harness="c05_codec.c", entry="h_codec_arr", srcs=SRCS, remove_bodies=["foamInit"],
                        defs=["-DV_STO_PAD=1024", "-DV_STO_NOFREE", "-DV_NO_ASSERT_STUB", "-DV_NO_BUG_STUB", "-DARRN=%d" % n],
                        stubs=["stubs.c", "stubs_print.c"], unwind=n + 4, object_bits=14, timeout=900, mem_gb=10, tiers=tiers,
                        group="FOAM codec", bound="character arrays of %d arbitrary characters" % n))
    # archives: a member whose name is kept in the long-name table is found under that name (archive.c:arRdItemArch)
    qs.append(Query(name="ar_longname", harness="c17_archive.c", entry="h_ar_longname", stubs=["stubs.c", "stubs_print.c"],
                    defs=["-DV_NO_STO_STUBS", "-DINDIRECT"], unwind=18, unwindset=["body_h_ar_longname.1:46"], timeout=600, mem_gb=10,
                    group="archive member names",
                    bound="one GNU-format member header with name field /K, every K and every name table of 12 characters"))
    return qs
