"""C18 -- a successful exit means every requested output was written."""
from vlib.core import Query

INFO = {
    "claim": "For each output emitter of emit.c (and libClose for .ao files), under EVERY schedule of failing fopen/fputc/fputs/"
             "fwrite/fprintf/fflush/fclose calls on the requested output, the emitter never returns normally after a failed write "
             "or close: it leaves through the file error handler (fatal diagnostic, non-zero exit). Decided by CBMC on the real "
             "emit.c/file.c with stdio as a nondeterministic environment.",
    "level": "model_checking",
    "bounds": "at most 24 stdio calls per emitter run (each may fail independently: 2^24 schedules per emitter, all symbolic); "
              "content writers are abstracted to 2 writes per call",
    "outside": "the bytes actually written; rename/remove races; the C/Java/object emitters that shell out to the C compiler; "
               "short writes that libc does not report",
    "assumptions": [
        "ISO C stdio contract: a failed write sets the stream's error indicator, ferror reports it, fclose may fail",
        "content writers (inclWrite, abWrSExpr, symeListWrSExpr, sxiWrite, foamWrSExpr) perform writes on the stream they are given and nothing else relevant",
        "the installed file error handler does not return (compFileError -> comsgFatal)",
        "file names are opaque; osDirIsThere(name) is false for the output name",
    ],
}

ENTRIES = ["included", "absyn", "oldabsyn", "symeexpr", "annabs", "foamexpr", "lisp", "c_single", "c_split"]


def queries(ctx, extra):
    qs = []
    for e in ENTRIES:
        qs.append(Query(name="emit_" + e, harness="c18_emit.c", entry="h_emit_" + e, srcs=["emit.c", "file.c"], unwind=26,
                        defs=["-DV_NO_STO_STUBS"], object_bits=12, remove_bodies=["fileEnsureDirectory", "emitFileRemove"],
                        bound="every failure schedule over <= 24 stdio calls", group="emitters"))
    qs.append(Query(name="lib_write_close", harness="c18_lib.c", entry="h_lib_write_close", srcs=["file.c"], unwind=26,
                    defs=["-DV_NO_STO_STUBS"], remove_bodies=["fileEnsureDirectory", "libUnRegister"], object_bits=12,
                    timeout=600, bound="every failure schedule over <= 24 stdio calls; one 4-byte section", group=".ao writer"))
    return qs
