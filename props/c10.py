"""C10 -- the storage manager never hands out or reclaims live memory: size-class and address arithmetic slice (store.c)."""
from vlib.core import Query

INFO = {
    "claim": "Slice: the size-class selection and the address-to-piece arithmetic of the fixed-size allocator in store.c are exact: for every "
             "request size <= FixedSizeMax the chosen class is the smallest class that fits; for every class and every address inside a "
             "prepared section the piece index computed by the fast path (shift or division lookup table) is (address - data)/size and "
             "lies inside the section, the info array and the data area do not overlap and the data area ends at the section end; the B-tree that indexes "
             "free mixed-size pieces keeps its keys, order and balance under its node primitives (split, unsplit, rotate, on leaf and interior nodes) and "
             "under one insert/delete on a leaf root; decided by CBMC on the real stoInit / sectPrepare / qmLogNo / qmDivNo / btree.c. Allocation "
             "histories, piece carving and merging of mixed sections, resize and collection are NOT decided.",
    "level": "model_checking",
    "bounds": "tables (production parameters): all request sizes 0..256, all 12 size classes and class pairs, all 4096 offsets within a page; section "
              "layout: all 12 classes, every address of the data area, tagging on and off, pages of 512 bytes (quick) and 1024 bytes "
              "(thorough) selected through the ALDOR_VERIF_STO_LG_PGSIZE hook -- the production 4096-byte page is NOT decided for the section layout",
    "outside": "every operation history (stoAlloc/stoFree/stoResize/stoGc sequences), free-list integrity over time, the size arithmetic of mixed-size sections "
               "(pieceGetMixed), whole B-tree operations on trees of more than one level, page map growth, conservative marking, alignment of the page group itself (CBMC has no "
               "numeric addresses: byteGetIfCan's pointer/integer round trip is outside the memory model)",
    "assumptions": ["osAlloc returns no memory during stoInit (stoInit tolerates that and still initialises every table checked here)",
                    "osGetEnv returns NULL (no GC_* tuning variables)", "the page group handed to sectPrepare is a static, maximally aligned array"],
}


def queries(ctx, extra):
    OOS = [("pgmapMod", "", "stoInit with an operating system that hands out no memory forms NULL - NULL in pgNo(); start-up without memory is "
                            "not part of C10 and the harness only uses the tables stoInit fills in afterwards")]
    qs = [Query(name="store_tables", harness="c10_store.c", entry="h_store_tables", stubs=["stubs.c", "stubs_print.c"], unwind=4100,
                defs=["-DV_NO_STO_STUBS"], out_of_scope=OOS,
                timeout=1200, mem_gb=10, group="size classes and division tables", flags=["--max-field-sensitivity-array-size", "4100"],
                bound="all request sizes 0..FixedSizeMax, all class pairs, all offsets 0..PgSize-1")]
    # section layout: the page is shrunk through the ALDOR_VERIF_STO_LG_PGSIZE hook (same text, PgSize = 1 << LG); with the production
    # 4096-byte page the byte-wise overlay of the Section header on the raw page did not get through symbolic execution in 1200 s
    for lg, npg, tiers in ((9, 1, ("quick", "thorough")), (10, 1, ("thorough",))):     # fixed sections are always FixedSizePgGroup = 1 page
        for cls in range(12):
            qs.append(Query(name="store_section_c%02d_lg%d_p%d" % (cls, lg, npg), harness="c10_store.c", entry="h_store_section",
                            defs=["-DCLS=%d" % cls, "-DNPG=%d" % npg, "-DV_NO_STO_STUBS", "-DALDOR_VERIF", "-DALDOR_VERIF_STO_LG_PGSIZE=%d" % lg],
                            out_of_scope=OOS, stubs=["stubs.c", "stubs_print.c"], unwind=(1 << lg) + 4, timeout=1200, mem_gb=10,
                            tiers=tiers, group="section layout",
                            bound="size class %d, %d page(s) of %d bytes (hook), every address inside the data area, tagging on/off" % (cls, npg, 1 << lg)))
    # the free mixed-size pieces are indexed by a B-tree (store.c -> btree.c): the node primitives (split, unsplit, rotate up/down on leaf and
    # interior nodes) and one insert/delete step on a leaf root are the queries of C20, decided here as part of the allocator
    from props import c20
    for q in c20.queries(ctx, {}):
        if q.name.startswith("btree_"):
            q.group = "free-piece index (btree.c)"
            qs.append(q)
    return qs
