"""C04 -- every builtin operation means the same wherever it is evaluated.

For each builtin of foamBValInfoTable (parsed from the snapshot's foam.c on every run) that has an entry in
SPEC below, three independent harness entries are GENERATED and decided by the solver over all operand values:

  fold_<Op>   the real of_cfold.c:cfoldBCall on a BCall node whose operands are constant nodes with symbolic values
  fint_<Op>   the real fint.c:fintEvalBCall on a byte-code tape  BCall <Op> (Par 0) (Par 1)..  over a frame of symbolic values
  cgen_<Op>   the C that the freshly built compiler emits for `<Op>(a, b, ..)` (-Q0 -Fc of a generated kernel file),
              executed together with the real foam_c.h / foam_c.c

each against the same one-line definition (SPEC).  Agreement of the three evaluators follows by transitivity.
"""
import os
import re
import subprocess

from vlib.core import Query, HARNESS, log

INFO = {
    "claim": "For every builtin listed in SPEC (boolean, character, machine-integer, conversion and float operations) the value "
             "computed by the compile-time folder, by the interpreter's evaluator and by the C emitted by the compiler equals a "
             "one-line definition for ALL operand values of the full machine width (not boundary samples); decided per builtin "
             "and per evaluator by CBMC on the real cfoldBCall / fintEvalBCall / emitted C.",
    "level": "model_checking",
    "bounds": "operands: all 2^64 SInt values, all 256 characters, both booleans, all float/double bit patterns; no loop bound is "
              "needed except in SIntLength/Gcd (64/93 iterations, unwinding assertions)",
    "outside": "Format*/Scan*, array, pointer, list, store and export-table builtins; SIntTimesModInv; BInt builtins (their arithmetic is "
               "decided under C11); where no language definition exists for an operand region (SIntMod/Rem/MinusMod with negative "
               "operands) the definition used is C99 truncated remainder, i.e. the consensus the three evaluators are required to share",
    "assumptions": [
        "division builtins: divisor != 0 and not (LONG_MIN, -1); shifts and bit tests: 0 <= count < 64; CharNum/SIntToByte: 0..255",
        "<ctype.h> classification words and case maps are the real glibc C-locale tables (dumped natively on every run)",
        "foamInit is not run (its body is removed: it only interns names); the folder is called with cfoldFoldAll = cfoldFoldFloat = true",
        "the interpreter leg supplies operands through (Par i) references to a harness-built frame; prog/format descriptors built by the harness",
        "cgen leg: the aldor binary is rebuilt from the snapshot of /repo's sources; libfoamlib.al as built in /repo is trusted",
    ],
}

# ---------------------------------------------------------------------------------------------
CT = {"Bool": "long", "Char": "long", "SInt": "long", "HInt": "long", "Byte": "long", "SFlo": "float", "DFlo": "double"}
LOAD = {  # how a raw 64-bit symbolic input becomes an operand of that FOAM type
    "Bool": "(in->x%d & 1)", "Char": "(in->x%d & 0xff)", "SInt": "in->x%d", "HInt": "(long)(short) in->x%d",
    "Byte": "(in->x%d & 0xff)", "SFlo": "u2f((unsigned) in->x%d)", "DFlo": "u2d((unsigned long) in->x%d)",
}
NOT_DIV = "b != 0 && !(a == LONG_MIN && b == -1)"
SH = "b >= 0 && b < 64"
U = "(unsigned long)"

SPEC = {
    # name: (definition, domain or None)
    "BoolFalse": ("0", None), "BoolTrue": ("1", None), "BoolNot": ("!a", None), "BoolAnd": ("(a && b)", None),
    "BoolOr": ("(a || b)", None), "BoolEQ": ("(a == b)", None), "BoolNE": ("(a != b)", None),
    "CharSpace": ("' '", None), "CharNewline": ("'\\n'", None), "CharTab": ("'\\t'", None),
    "CharIsDigit": ("(a >= '0' && a <= '9')", None),
    "CharIsLetter": ("((a >= 'a' && a <= 'z') || (a >= 'A' && a <= 'Z'))", None),
    "CharEQ": ("(a == b)", None), "CharNE": ("(a != b)", None), "CharLT": ("(a < b)", None), "CharLE": ("(a <= b)", None),
    "CharLower": ("((a >= 'A' && a <= 'Z') ? a + 32 : a)", None), "CharUpper": ("((a >= 'a' && a <= 'z') ? a - 32 : a)", None),
    "CharOrd": ("a", None), "CharNum": ("a", "a >= 0 && a <= 255"),
    "SInt0": ("0", None), "SInt1": ("1", None), "SIntMin": ("LONG_MIN", None), "SIntMax": ("LONG_MAX", None),
    "SIntIsZero": ("(a == 0)", None), "SIntIsNeg": ("(a < 0)", None), "SIntIsPos": ("(a > 0)", None),
    "SIntIsEven": ("((a & 1) == 0)", None), "SIntIsOdd": ("((a & 1) != 0)", None),
    "SIntEQ": ("(a == b)", None), "SIntNE": ("(a != b)", None), "SIntLT": ("(a < b)", None), "SIntLE": ("(a <= b)", None),
    "SIntNegate": ("(long)(0UL - %sa)" % U, None), "SIntPrev": ("(long)(%sa - 1UL)" % U, None), "SIntNext": ("(long)(%sa + 1UL)" % U, None),
    "SIntPlus": ("(long)(%sa + %sb)" % (U, U), None), "SIntMinus": ("(long)(%sa - %sb)" % (U, U), None),
    "SIntTimes": ("(long)(%sa * %sb)" % (U, U), None), "SIntTimesPlus": ("(long)(%sa * %sb + %sc)" % (U, U, U), None),
    "SIntMod": ("(a % b)", NOT_DIV), "SIntQuo": ("(a / b)", NOT_DIV), "SIntRem": ("(a % b)", NOT_DIV),
    "SIntPlusMod": ("((a + b) % c)", "c > 0 && c <= (1L << 62) && a >= 0 && a < c && b >= 0 && b < c"),
    "SIntMinusMod": ("((a - b) % c)", "c > 0 && c <= (1L << 62) && a >= 0 && a < c && b >= 0 && b < c"),
    # operands reduced modulo c <= 2^31: the product is below 2^62, so the 64-bit expression IS the mathematical value
    "SIntTimesMod": ("((a * b) % c)", "c > 0 && c <= (1L << 31) && a >= 0 && a < c && b >= 0 && b < c"),
    "SIntLength": ("(a == 0 ? 0 : 64 - __builtin_clzl(a < 0 ? 0UL - %sa : %sa))" % (U, U), None),
    "SIntShiftUp": ("(long)(%sa << b)" % U, SH), "SIntShiftDn": ("(a >> b)", SH),
    "SIntBit": ("((a >> b) & 1)", SH + " && a >= 0"),
    "SIntNot": ("(~a)", None), "SIntAnd": ("(a & b)", None), "SIntOr": ("(a | b)", None), "SIntXOr": ("(a ^ b)", None),
    "ByteToSInt": ("a", None), "SIntToByte": ("a", "a >= 0 && a <= 255"),
    "HIntToSInt": ("a", None), "SIntToHInt": ("a", "a >= -32768 && a <= 32767"),
    "Byte0": ("0", None), "Byte1": ("1", None), "HInt0": ("0", None), "HInt1": ("1", None),
    "SIntToSFlo": ("(float) a", None), "SIntToDFlo": ("(double) a", None),
    "SFloToDFlo": ("(double) a", None), "DFloToSFlo": ("(float) a", None),
    "SFlo0": ("0.0f", None), "SFlo1": ("1.0f", None), "DFlo0": ("0.0", None), "DFlo1": ("1.0", None),
}
for P, z in (("SFlo", "0.0f"), ("DFlo", "0.0")):
    SPEC.update({
        P + "IsZero": ("(a == %s)" % z, None), P + "IsNeg": ("(a < %s)" % z, None), P + "IsPos": ("(a > %s)" % z, None),
        P + "EQ": ("(a == b)", None), P + "NE": ("(a != b)", None), P + "LT": ("(a < b)", None), P + "LE": ("(a <= b)", None),
        P + "Negate": ("(-a)", None), P + "Plus": ("(a + b)", None), P + "Minus": ("(a - b)", None), P + "Times": ("(a * b)", None),
        P + "Divide": ("(a / b)", None), P + "TimesPlus": ("(a * b + c)", None),
    })
HEAVY = {"SIntTimes", "SIntTimesPlus", "SIntMod", "SIntQuo", "SIntRem", "SIntPlusMod", "SIntMinusMod", "SIntTimesMod",
         "SFloDivide", "DFloDivide", "DFloTimes", "DFloTimesPlus", "SFloTimesPlus", "SFloTimes", "DFloPlus", "DFloMinus",
         "SIntToSFlo", "SIntToDFlo"}

PRELUDE = r'''
#include <limits.h>
#include <string.h>
#include "verif.h"
static unsigned f2u(float f)   { unsigned u; memcpy(&u, &f, 4); return u; }
static float    u2f(unsigned u){ float f;    memcpy(&f, &u, 4); return f; }
static unsigned long d2u(double d)       { unsigned long u; memcpy(&u, &d, 8); return u; }
static double        u2d(unsigned long u){ double d;        memcpy(&d, &u, 8); return d; }
#define SAME_F(x, y) (f2u(x) == f2u(y) || ((x) != (x) && (y) != (y)))
#define SAME_D(x, y) (d2u(x) == d2u(y) || ((x) != (x) && (y) != (y)))
'''


def parse_bvals(foam_c):
    a = foam_c.index("struct foamBVal_info foamBValInfoTable[] = {")
    b = foam_c.index("};", a)
    rows = re.findall(r'\{\s*FOAM_BVal_(\w+)\s*,\s*0\s*,\s*"(\w+)"\s*,\s*(\d)\s*,\s*(\d)\s*,\s*\{([^}]*)\}\s*,\s*(\w+)\s*,\s*(\d)\s*,\s*\{([^}]*)\}\s*\}',
                      foam_c[a:b])
    out = {}
    for r in rows:
        args = [x.strip().replace("FOAM_", "") for x in r[4].split(",") if x.strip() not in ("", "0")]
        out[r[0]] = dict(name=r[0], argc=int(r[3]), args=args[:int(r[3])], ret=r[5].replace("FOAM_", ""), retc=int(r[6]))
    return out


def usable(bv):
    return bv["name"] in SPEC and bv["retc"] == 1 and bv["ret"] in CT and all(t in CT for t in bv["args"])


def cmp_expr(ret, got, want):
    if ret == "SFlo":
        return "SAME_F(%s, (float)(%s))" % (got, want)
    if ret == "DFlo":
        return "SAME_D(%s, (double)(%s))" % (got, want)
    return "(long)(%s) == (long)(%s)" % (got, want)


def locals_of(bv):
    out = []
    for i, t in enumerate(bv["args"]):
        out.append("\t%s %s = %s;" % (CT[t], "abcd"[i], LOAD[t] % i))
    dom = SPEC[bv["name"]][1]
    if dom:
        out.append("\tV_ASSUME(%s);" % dom)
    return "\n".join(out)


DATAFIELD = {"Bool": "foamBool.BoolData", "Char": "foamChar.CharData", "SInt": "foamSInt.SIntData", "HInt": "foamHInt.HIntData",
             "Byte": "foamByte.ByteData", "SFlo": "foamSFlo.SFloData", "DFlo": "foamDFlo.DFloData"}


MEMBER = {"Bool": "foamBool", "Char": "foamChar", "SInt": "foamSInt", "HInt": "foamHInt", "Byte": "foamByte", "SFlo": "foamSFlo", "DFlo": "foamDFlo"}


def gen_fold_all(bvs, gen):
    """one generated harness file per builtin: with ~250 static nodes in one unit symex needed 100 s per query, alone 2 s"""
    out = {}
    for bv in bvs:
        out[bv["name"]] = os.path.join(gen, "gen_c04_fold_%s.c" % bv["name"])
        gen_fold([bv], out[bv["name"]])
    return out


def gen_fold(bvs, path):
    # The BCall node and its operand nodes are static objects with CONSTANT INITIALIZERS for tag/argc/op (so that symex
    # resolves the 150-case switch of cfoldBCall to the one case under test; with run-time assignments to union members the
    # query took 130 s instead of 2 s); only the operand values are symbolic.
    L = ['/* GENERATED by props/c04.py from foamBValInfoTable -- folder leg */', '#include "of_cfold.c"', PRELUDE]
    for bv in bvs:
        n = bv["name"]
        for i, t in enumerate(bv["args"]):
            L.append("static union foam N%d_%s = { .%s = { .hdr = { .tag = FOAM_%s, .argc = 1 } } };" % (i, n, MEMBER[t], t))
        L.append("static union foam NB_%s = { .foamBCall = { .hdr = { .tag = FOAM_BCall, .argc = %d }, .op = FOAM_BVal_%s, .argv = { %s } } };"
                 % (n, bv["argc"] + 1, n, ", ".join("&N%d_%s" % (i, n) for i in range(bv["argc"])) or "0"))
        L.append("V_ENTRY(h_fold_%s, long x0; long x1; long x2; long x3;)\n{" % n)
        L.append(locals_of(bv))
        L.append("\tFoam r;")
        for i, t in enumerate(bv["args"]):
            L.append("\tN%d_%s.%s = %s;" % (i, n, DATAFIELD[t], "abcd"[i]))
        L.append("\tcfoldFoldAll = 1; cfoldFoldFloat = 1;")
        L.append("\tr = cfoldBCall(&NB_%s);" % n)
        L.append("\tif (r != &NB_%s) {" % n)
        L.append('\t\tV_ASSERT(foamTag(r) == FOAM_%s, "%s: folded node has the result type");' % (bv["ret"], n))
        L.append('\t\tV_ASSERT(%s, "%s: folded value equals the definition");' % (
            cmp_expr(bv["ret"], "r->" + DATAFIELD[bv["ret"]], SPEC[n][0]), n))
        L.append("\t}\n}")
    open(path, "w").write("\n".join(L) + "\n")


FI = {"Bool": "fiBool", "Char": "fiChar", "SInt": "fiSInt", "HInt": "fiHInt", "Byte": "fiByte", "SFlo": "fiSFlo", "DFlo": "fiDFlo"}


def gen_fint(bvs, path):
    L = ['/* GENERATED by props/c04.py from foamBValInfoTable -- interpreter leg */', '#include "fint.c"', PRELUDE,
         "static UByte v_tape[32];", "static union dataObj v_frame[16];", "static struct progInfo v_prog;", "static struct fmt v_fpar[4];"]
    for bv in bvs:
        n = bv["name"]
        L.append("V_ENTRY(h_fint_%s, long x0; long x1; long x2; long x3;)\n{" % n)
        L.append(locals_of(bv))
        L.append("\tunion dataObj ret; dataType ty; int k = 0;")
        L.append("\tmemset(&ret, 0, sizeof ret);")
        L.append("#if SMALL_BVAL_TAGS\n\tv_tape[k++] = FOAM_BVal_%s - FOAM_BVAL_START;\n#else\n"
                 "\tv_tape[k++] = BYTE0(FOAM_BVal_%s - FOAM_BVAL_START); v_tape[k++] = BYTE1(FOAM_BVal_%s - FOAM_BVAL_START);\n#endif" % (n, n, n))
        for i, t in enumerate(bv["args"]):
            L.append("\tv_tape[k++] = FOAM_Par + 1 * FFO_SPAN; v_tape[k++] = %d;" % i)
            L.append("\tv_fpar[%d].type = FOAM_%s; v_frame[%d + PAR_OFFSET].%s = %s;" % (i, t, i, FI[t], "abcd"[i]))
        L.append("\tv_prog.fmtPar = v_fpar; v_prog.parsCount = %d;" % bv["argc"])
        L.append("\ttape = v_tape; ip = 0; prog = &v_prog; bp = v_frame;")
        L.append("\tty = fintEvalBCall(&ret);")
        L.append('\tV_ASSERT(ty == FOAM_%s, "%s: interpreter reports the result type");' % (bv["ret"], n))
        L.append('\tV_ASSERT(%s, "%s: interpreted value equals the definition");' % (cmp_expr(bv["ret"], "ret." + FI[bv["ret"]], SPEC[n][0]), n))
        L.append('\tV_ASSERT(ip == k, "%s: interpreter consumed exactly the operands");' % n)
        L.append("}")
    open(path, "w").write("\n".join(L) + "\n")


ASTYPE = {"Bool": "Bool", "Char": "Char", "SInt": "SInt", "HInt": "HInt", "Byte": "XByte", "SFlo": "SFlo", "DFlo": "DFlo"}
FITYPE = {"Bool": "FiBool", "Char": "FiChar", "SInt": "FiSInt", "HInt": "FiHInt", "Byte": "FiByte", "SFlo": "FiSFlo", "DFlo": "FiDFlo"}


def gen_as(bvs, path):
    imp, exp, defs = [], [], []
    for bv in bvs:
        n = bv["name"]
        sig = "(%s) -> %s" % (", ".join(ASTYPE[t] for t in bv["args"]), ASTYPE[bv["ret"]])
        imp.append("  %s: %s;" % (n, sig))
        exp.append("  k%s: %s;" % (n, sig))
        params = ", ".join("%s: %s" % ("abcd"[i], ASTYPE[t]) for i, t in enumerate(bv["args"]))
        defs.append("k%s(%s): %s == %s(%s);" % (n, params, ASTYPE[bv["ret"]], n, ", ".join("abcd"[:bv["argc"]])))
    # no `export to Foreign C`: the K&R-style declarations emitted for exported functions with Char/SFlo/Byte/HInt
    # parameters do not compile under gcc ("argument type that has a default promotion"); unexported top-level
    # functions are emitted as the same static CF<n>_k<Op> C functions at -Q0
    open(path, "w").write('#include "foamlib"\nimport from Machine;\nimport {\n%s\n} from Builtin;\n%s\n'
                          % ("\n".join(imp), "\n".join(defs)))


def gen_cgen(bvs, cfile, path):
    ctext = open(cfile).read()
    L = ['/* GENERATED by props/c04.py -- emitted-C leg: the compiler\'s own output for each builtin */', PRELUDE,
         '#include "%s"' % cfile]
    ok = []
    for bv in bvs:
        n = bv["name"]
        m = re.search(r"^(CF\d+_k%s)\(" % n, ctext, re.M)
        if not m:
            continue
        ok.append(bv)
        L.append("V_ENTRY(h_cgen_%s, long x0; long x1; long x2; long x3;)\n{" % n)
        L.append(locals_of(bv))
        args = ", ".join(["(FiEnv) 0"] + ["(%s) %s" % (FITYPE[t], "abcd"[i]) for i, t in enumerate(bv["args"])])
        L.append("\t%s got = %s(%s);" % (FITYPE[bv["ret"]], m.group(1), args))
        L.append('\tV_ASSERT(%s, "%s: value computed by the emitted C equals the definition");' % (cmp_expr(bv["ret"], "got", SPEC[n][0]), n))
        L.append("}")
    open(path, "w").write("\n".join(L) + "\n")
    return ok


# ---------------------------------------------------------------------------------------------
def queries(ctx, extra):
    bvals = parse_bvals(ctx.read_src("foam.c"))
    bvs = [bv for bv in bvals.values() if usable(bv)]
    extra["coverage"] = {"builtins_in_table": len(bvals), "builtins_with_definition": len(bvs),
                         "builtins_without_definition": sorted(n for n in bvals if n not in SPEC)}
    gen = os.path.join(ctx.scratch, "gen")
    os.makedirs(gen, exist_ok=True)
    inc = ctx.ctype_tables()
    fint_c = os.path.join(gen, "gen_c04_fint.c")
    fold_files = gen_fold_all(bvs, gen)
    gen_fint(bvs, fint_c)
    # ---- emitted-C leg: build the compiler, compile the generated kernel file at -Q0, wrap what it emitted
    as_file, c_file, cgen_c = os.path.join(gen, "bvk.as"), os.path.join(gen, "bvk.c"), os.path.join(gen, "gen_c04_cgen.c")
    gen_as(bvs, as_file)
    cgen_bvs = []
    try:
        aldor = ctx.build_aldor()
        p = subprocess.run(aldor + ["-Q0", "-Fc", "bvk.as"], cwd=gen, capture_output=True, text=True)
    except Exception as e:          # scratch build failed: the leg is reported as unavailable (query cgen_UNAVAILABLE), not as a crash
        p = subprocess.CompletedProcess([], 1, "", "scratch build failed: " + str(e)[-600:])
    if p.returncode != 0 or not os.path.exists(c_file):
        ctx.notes.append("cgen leg: compiler did not produce C for the kernel file: " + (p.stdout + p.stderr)[-800:])
        log("C04: cgen leg unavailable -- " + (p.stdout + p.stderr)[-800:])
        extra["coverage"]["cgen_leg"] = "UNAVAILABLE: " + (p.stdout + p.stderr)[-300:]
    else:
        cgen_bvs = gen_cgen(bvs, c_file, cgen_c)
        extra["coverage"]["cgen_leg"] = "%d builtins wrapped from the compiler's -Q0 -Fc output" % len(cgen_bvs)
    cg = {bv["name"] for bv in cgen_bvs}
    qs = []
    if not cgen_bvs:
        qs.append(Query(name="cgen_UNAVAILABLE", harness="c04_cgen_missing.c", entry="h_cgen_missing", bound="-"))
    for bv in bvs:
        n = bv["name"]
        heavy = n in HEAVY
        tiers = ("quick", "thorough")
        common = dict(includes=[inc], stubs=["stubs.c", "stubs_ctype.c"], unwind=70 if n in ("SIntLength",) else 6,
                      timeout=600 if heavy else 300, tiers=tiers, solver="cvc5" if heavy else "", bound="all operand values (%s)" % ", ".join(bv["args"]) if bv["args"] else "constant")
        qs.append(Query(name="fold_" + n, harness=fold_files[n], entry="h_fold_" + n, srcs=["foam.c", "stdc.c"], remove_bodies=["foamInit"],
                        defs=["-DV_STO_PAD=1024", "-DV_STO_NOFREE", "-DV_NO_ASSERT_STUB"], object_bits=14, group="folder", **common))
        qs.append(Query(name="fint_" + n, harness=fint_c, entry="h_fint_" + n, srcs=["foam_c.c", "foam.c", "stdc.c"], remove_bodies=["foamInit"],
                        defs=["-DV_STO_PAD=1024", "-DV_STO_NOFREE", "-DV_NO_ASSERT_STUB"], object_bits=14, group="interpreter", **common))
        if n in cg:
            qs.append(Query(name="cgen_" + n, harness=cgen_c, entry="h_cgen_" + n, srcs=["foam_c.c", "stdc.c"], defs=["-DV_STO_PAD=1024", "-DV_STO_NOFREE", "-DV_NO_ASSERT_STUB"],
                            object_bits=12, group="emitted C", **common))
    # literal conversion shared by all three evaluators (cfoldBCall, fintEvalBCall and the emitted C all call fiArrToSInt)
    for n, tiers in ((5, ("quick", "thorough")), (6, ("thorough",))):     # 7 characters: no verdict in 900 s
        qs.append(Query(name="lit_ArrToSInt_%d" % n, harness="c04_literals.c", entry="h_arr2sint", srcs=["foam_c.c", "util.c", "stdc.c"],
                        defs=["-DLLEN=%d" % n, "-DV_NO_ASSERT_STUB", "-DV_NO_BUG_STUB", "-DV_STO_NOFREE"], stubs=["stubs.c", "stubs_print.c"],
                        unwind=n + 4, timeout=900, mem_gb=8, tiers=tiers, group="literal conversion",
                        bound="all well-formed integer literals [RR r] WW of <= %d characters, radix 2..36" % n))
    return qs
