"""C20 -- core containers and the boolean normal form behave as their models."""
from vlib.core import Query

INFO = {
    "claim": "Bit vectors (all operations, 1..70 bits, arbitrary contents), the binary-heap priority queue, the B-tree (t = 2) and the "
             "hash table agree with their mathematical models on every operation sequence / formula within the "
             "stated bounds; operation kinds, keys and (for the table) hash collisions are symbolic. Decided by CBMC on the real "
             "bitv.c, priq.c, btree.c, table.c (dnf.c: attempted, no verdict, not claimed).",
    "level": "model_checking",
    "bounds": "bitv: nbits 1..70 symbolic, contents arbitrary; priq: histories of 3-4 (quick) / 5-6 (thorough) symbolic operations; btree: t = 2, one "
              "symbolic insert/delete from every valid leaf root, and each restructuring primitive (split, unsplit, rotate up/down) on every "
              "two-level shape it applies to (symbolic keys 0..255); table and dnf: see query bounds",
    "outside": "the DNF clause (dnf.c: no verdict within 1800 s); whole B-tree insert/delete on trees of height >= 2; longer histories; list.c, intset.c, buffer.c growth paths; ablogic.c / tfcond.c (need AbSyn); deleting a key that is not "
               "in the B-tree and extracting from an empty queue (documented preconditions)",
    "assumptions": [
        "stoAlloc/stoResize modelled by malloc / bump arena, never fails",
        "B-tree nodes come from a 12-node static pool through the BTreeAllocFun hook the API provides (store.c uses the same hook)",
        "priority-queue keys are doubles converted from 16-bit integers (no NaN)",
    ],
}


def queries(ctx, extra):
    qs = []
    for e, un in (("h_bitv_algebra", 4), ("h_bitv_setclear", 4), ("h_bitv_equal", 4), ("h_bitv_count", 72), ("h_bitv_int", 34),
                  ("h_bitv_resize", 4)):
        if e == "h_bitv_count":      # popcount equivalence is the expensive one: 413 s at 70 bits
            qs.append(Query(name="bitv_count20", harness="c20_bitv.c", entry=e, srcs=["bitv.c"], unwind=22, group="bitv", timeout=600,
                            defs=["-DNB_MAX=20"], solver="cadical", bound="nbits 1..20 symbolic, all contents"))
            qs.append(Query(name="bitv_count70", harness="c20_bitv.c", entry=e, srcs=["bitv.c"], unwind=un, group="bitv", timeout=1800,
                            solver="cadical", tiers=("thorough",), bound="nbits 1..70 symbolic, all contents"))
            continue
        qs.append(Query(name=e[2:], harness="c20_bitv.c", entry=e, srcs=["bitv.c"], unwind=un, group="bitv", timeout=600,
                        bound="nbits 1..70 symbolic, all contents"))
    for k, tiers in ((3, ("quick", "thorough")), (4, ("quick", "thorough")), (5, ("thorough",)), (6, ("thorough",))):
        qs.append(Query(name="priq_k%d" % k, harness="c20_priq_btree.c", entry="h_priq", srcs=["priq.c", "util.c"],
                        defs=["-DKOPS=%d" % k, "-DV_NO_STO_STUBS", "-DV_NO_BUG_STUB"], unwind=k + 3, timeout=1800, tiers=tiers, mem_gb=12,
                        group="priq", bound="%d symbolic insert/extract-min operations, 16-bit keys" % k))
    # B-tree (t = 2).  (a) whole insert/delete from an arbitrary valid LEAF root (0..3 keys; insert into a full root
    # splits it); (b) the four restructuring primitives on every two-level shape they apply to.  Whole operations on
    # two-level trees gave no verdict (symex > 5 min, SAT > 22 GB) and are outside the claim.
    for r, opk in ((0, None), (1, None), (2, None), (3, 0)):      # (3, insert): root split, no verdict in 900 s
        qs.append(Query(name="btree_step_leaf%d%s" % (r, "" if opk is None else ("_ins" if opk else "_del")), harness="c20_priq_btree.c",
                        entry="h_btree_step", srcs=["btree.c"], unwind=17, timeout=900, mem_gb=8,
                        defs=["-DV_NO_STO_STUBS", "-DROOTK=%d" % r, "-DCH0=0", "-DCH1=0", "-DCH2=0", "-DCH3=0"] + ([] if opk is None else ["-DOPK=%d" % opk]),
                        unwindset=["btreeCheck0:2", "btreeDelete0:2", "cnt:3"], group="btree",
                        bound="arbitrary valid leaf root with %d keys; one symbolic insert or delete of a present key; EQ/GE/min/max probes" % r))
    helper = []
    for r in (1, 2):                       # split: parent not full, child idx full
        for idx in range(r + 1):
            ch = [2] * (r + 1); ch[idx] = 3
            helper.append(("split", 0, r, idx, ch))
    for r in (1, 2, 3):
        for idx in range(r):               # unsplit: both neighbours minimal
            ch = [2] * (r + 1); ch[idx] = 1; ch[idx + 1] = 1
            helper.append(("unsplit", 1, r, idx, ch))
            for big in (2, 3):
                ch = [2] * (r + 1); ch[idx] = 1; ch[idx + 1] = big
                helper.append(("rotdown", 2, r, idx, ch))
                ch = [2] * (r + 1); ch[idx] = big; ch[idx + 1] = 1
                helper.append(("rotup", 3, r, idx, ch))
    for inner in (0, 1):
        for nm, hop, r, idx, ch in helper:
            ch4 = ch + [0] * (4 - len(ch))
            qs.append(Query(name="btree_%s%s_r%d_i%d_%s" % (nm, "_inner" if inner else "", r, idx, "".join(map(str, ch))),
                            harness="c20_priq_btree.c", entry="h_btree_helper",
                            defs=["-DV_NO_STO_STUBS", "-DV_BTREE_INTERNALS", "-DHOP=%d" % hop, "-DIDX=%d" % idx, "-DROOTK=%d" % r]
                                 + ["-DCH%d=%d" % (i, c) for i, c in enumerate(ch4)] + (["-DINNER"] if inner else []),
                            unwind=6, unwindset=["btreeCheck0:3", "cnt:3", "paired:3"], timeout=900, group="btree",
                            tiers=("quick", "thorough"),
                            bound="%s at child %d of an arbitrary valid tree: root %d keys, children %s keys%s, symbolic keys"
                                  % (nm, idx, r, ch, " (interior nodes over one-key leaves)" if inner else " (leaves)")))
    # dnf.c: attempted (harness/c20_dnf.c, formulas (l1 o l2) and ((l1 o1 l2) o2 l3) over 3 atoms): no verdict in 900 s / 1800 s --
    # symex of the heap-allocated variable-size terms does not finish; the DNF clause of C20 is therefore NOT claimed.
    # hash table: one step from every chain shape (bucket 0: 0..3 entries, bucket 1: 0..1), symbolic hash values;
    # plus the growth path from a full 1-bucket table (5 entries -> 6th insert enlarges to 2 buckets)
    QUICK = {(7, 0, 0), (7, 1, 0), (7, 0, 1), (7, 2, 0), (1, 4, 0)}      # the others take 130-860 s each
    for buckc, l0, l1 in [(7, a, b) for a in (0, 1, 2, 3) for b in (0, 1)] + [(1, 5, 0), (1, 4, 0)]:
        qs.append(Query(name="table_step_b%d_%d_%d" % (buckc, l0, l1), harness="c20_table.c", entry="h_table_step", srcs=["table.c", "util.c"],
                        defs=["-DV_NO_STO_STUBS", "-DV_NO_BUG_STUB", "-DBUCKC=%d" % buckc, "-DL0=%d" % l0, "-DL1=%d" % l1],
                        unwind=18, timeout=1800, mem_gb=10, group="table",
                        tiers=("quick", "thorough") if (buckc, l0, l1) in QUICK else ("thorough",),
                        bound="arbitrary valid table: %d bucket(s), chains of %d and %d entries, 6-key universe with symbolic hash "
                              "values 0..255 (used only through mod buckc and ==); one symbolic set/drop/lookup, then lookup of a symbolic "
                              "key, size and iteration" % (buckc, l0, l1)))
    for buckc, l0, l1 in ((1, 1, 0), (2, 1, 1), (2, 2, 0)):
        qs.append(Query(name="table_grow_hook_b%d_%d_%d" % (buckc, l0, l1), harness="c20_table.c", entry="h_table_step", srcs=["table.c", "util.c"],
                        defs=["-DV_NO_STO_STUBS", "-DV_NO_BUG_STUB", "-DALDOR_VERIF", "-DALDOR_VERIF_TBL_MAXLOAD=1", "-DBUCKC=%d" % buckc,
                              "-DL0=%d" % l0, "-DL1=%d" % l1, "-DTOP=0"], unwind=18, timeout=900, mem_gb=10, group="table",
                        tiers=("quick", "thorough") if buckc == 1 else ("thorough",),
                        bound="load factor 1 (hook): full %d-bucket table (%d+%d entries) + one tblSetElt of a symbolic key: the "
                              "tblEnlarge/rehash path, symbolic hash values; then lookup of a symbolic key, size and iteration" % (buckc, l0, l1)))
    qs.append(Query(name="table_grow_b1_5", tiers=("thorough",), harness="c20_table.c", entry="h_table_step", srcs=["table.c", "util.c"],
                    defs=["-DV_NO_STO_STUBS", "-DV_NO_BUG_STUB", "-DBUCKC=1", "-DL0=5", "-DL1=0", "-DTOP=0"], unwind=18, timeout=900, mem_gb=10,
                    group="table", bound="full 1-bucket table (5 entries) + one tblSetElt of a symbolic key: the tblEnlarge/rehash path "
                                         "(1 -> 2 buckets), symbolic hash values; then lookup of a symbolic key, size and iteration"))
    return qs
