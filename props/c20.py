"""C20 -- core containers and the boolean normal form behave as their models."""
from vlib.core import Query

INFO = {
    "claim": "Bit vectors (all operations, 1..70 bits, arbitrary contents), the binary-heap priority queue, the B-tree (t = 2), the "
             "hash table and the DNF algebra agree with their mathematical models on every operation sequence / formula within the "
             "stated bounds; operation kinds, keys and (for the table) hash collisions are symbolic. Decided by CBMC on the real "
             "bitv.c, priq.c, btree.c, table.c, dnf.c.",
    "level": "model_checking",
    "bounds": "bitv: nbits 1..70 symbolic, contents arbitrary; priq: histories of 3-4 (quick) / 5-6 (thorough) symbolic operations; btree: t = 2, one "
              "symbolic insert/delete from every valid leaf root, and each restructuring primitive (split, unsplit, rotate up/down) on every "
              "two-level shape it applies to (symbolic keys 0..255); table and dnf: see query bounds",
    "outside": "longer histories; list.c, intset.c, buffer.c growth paths; ablogic.c / tfcond.c (need AbSyn); deleting a key that is not "
               "in the B-tree and extracting from an empty queue (documented preconditions)",
    "assumptions": [
        "stoAlloc/stoResize modelled by malloc / bump arena, never fails",
        "B-tree nodes come from a 12-node static pool through the BTreeAllocFun hook the API provides (store.c uses the same hook)",
        "priority-queue keys are doubles converted from 16-bit integers (no NaN)",
    ],
}


def queries(ctx, extra):
    qs = []
    for e, un in (("h_bitv_algebra", 4), ("h_bitv_setclear", 4), ("h_bitv_equal", 4), ("h_bitv_count", 72), ("h_bitv_int", 34),
                  ("h_bitv_resize", 4)):
        if e == "h_bitv_count":      # popcount equivalence is the expensive one: 413 s at 70 bits
            qs.append(Query(name="bitv_count20", harness="c20_bitv.c", entry=e, srcs=["bitv.c"], unwind=22, group="bitv", timeout=600,
                            defs=["-DNB_MAX=20"], solver="cadical", bound="nbits 1..20 symbolic, all contents"))
            qs.append(Query(name="bitv_count70", harness="c20_bitv.c", entry=e, srcs=["bitv.c"], unwind=un, group="bitv", timeout=1800,
                            solver="cadical", tiers=("thorough",), bound="nbits 1..70 symbolic, all contents"))
            continue
        qs.append(Query(name=e[2:], harness="c20_bitv.c", entry=e, srcs=["bitv.c"], unwind=un, group="bitv", timeout=600,
                        bound="nbits 1..70 symbolic, all contents"))
    for k, tiers in ((3, ("quick", "thorough")), (4, ("quick", "thorough")), (5, ("thorough",)), (6, ("thorough",))):
        qs.append(Query(name="priq_k%d" % k, harness="c20_priq_btree.c", entry="h_priq", srcs=["priq.c", "util.c"],
                        defs=["-DKOPS=%d" % k, "-DV_NO_STO_STUBS", "-DV_NO_BUG_STUB"], unwind=k + 3, timeout=1800, tiers=tiers, mem_gb=12,
                        group="priq", bound="%d symbolic insert/extract-min operations, 16-bit keys" % k))
    # B-tree (t = 2).  (a) whole insert/delete from an arbitrary valid LEAF root (0..3 keys; insert into a full root
    # splits it); (b) the four restructuring primitives on every two-level shape they apply to.  Whole operations on
    # two-level trees gave no verdict (symex > 5 min, SAT > 22 GB) and are outside the claim.
    for r, opk in ((0, None), (1, None), (2, None), (3, 0)):      # (3, insert): root split, no verdict in 900 s
        qs.append(Query(name="btree_step_leaf%d%s" % (r, "" if opk is None else ("_ins" if opk else "_del")), harness="c20_priq_btree.c",
                        entry="h_btree_step", srcs=["btree.c"], unwind=17, timeout=900, mem_gb=8,
                        defs=["-DV_NO_STO_STUBS", "-DROOTK=%d" % r, "-DCH0=0", "-DCH1=0", "-DCH2=0", "-DCH3=0"] + ([] if opk is None else ["-DOPK=%d" % opk]),
                        unwindset=["btreeCheck0:2", "btreeDelete0:2", "cnt:3"], group="btree",
                        bound="arbitrary valid leaf root with %d keys; one symbolic insert or delete of a present key; EQ/GE/min/max probes" % r))
    helper = []
    for r in (1, 2):                       # split: parent not full, child idx full
        for idx in range(r + 1):
            ch = [2] * (r + 1); ch[idx] = 3
            helper.append(("split", 0, r, idx, ch))
    for r in (1, 2, 3):
        for idx in range(r):               # unsplit: both neighbours minimal
            ch = [2] * (r + 1); ch[idx] = 1; ch[idx + 1] = 1
            helper.append(("unsplit", 1, r, idx, ch))
            for big in (2, 3):
                ch = [2] * (r + 1); ch[idx] = 1; ch[idx + 1] = big
                helper.append(("rotdown", 2, r, idx, ch))
                ch = [2] * (r + 1); ch[idx] = big; ch[idx + 1] = 1
                helper.append(("rotup", 3, r, idx, ch))
    for nm, hop, r, idx, ch in helper:
        ch4 = ch + [0] * (4 - len(ch))
        qs.append(Query(name="btree_%s_r%d_i%d_%s" % (nm, r, idx, "".join(map(str, ch))), harness="c20_priq_btree.c", entry="h_btree_helper",
                        defs=["-DV_NO_STO_STUBS", "-DV_BTREE_INTERNALS", "-DHOP=%d" % hop, "-DIDX=%d" % idx, "-DROOTK=%d" % r]
                             + ["-DCH%d=%d" % (i, c) for i, c in enumerate(ch4)],
                        unwind=6, unwindset=["btreeCheck0:2", "cnt:3", "paired:3"], timeout=600, group="btree",
                        bound="%s at child %d of an arbitrary valid tree: root %d keys, children %s keys, symbolic keys" % (nm, idx, r, ch)))
    return qs
