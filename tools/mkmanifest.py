#!/usr/bin/env python3
"""Regenerate /verif/MANIFEST.json from props/*.py (claimed) and NOT_APPLICABLE below."""
import importlib, json, os, sys
V = os.path.dirname(os.path.dirname(os.path.abspath(__file__)))
sys.path.insert(0, V)

NOT_APPLICABLE = {
    "C01": "quantifies over whole Aldor programs through the complete front end and FOAM generation (~60 kLOC over heap graphs and global symbol tables) and needs an independent reference evaluator; a program cannot be made a symbolic input to that code within CBMC's reach. Kernel pieces are decided under C04/C11/C19.",
    "C03": "agreement of two complete execution routes on programs needs the byte-code loader, interpreter unit/closure machinery and the C runtime library executed symbolically from a whole unit; not encodable. The instruction-level content (each builtin means the same in fintEvalBCall and emitted C) is decided under C04.",
    "C06": "the accept/reject decision (tfSat/tiBottomUp/tiTopDown) operates on TForm/Syme/AbSyn graphs hung off global symbol tables built by ~30 kLOC; neither a symbolic program nor an arbitrary valid pre-state of those graphs can be constructed for the solver, and no leaf kernel of the decision is separable.",
    "C08": "2-safety over address-space layouts and collector schedules of a whole compilation; CBMC's memory model has no symbolic addresses, so address dependence is exactly what the solver cannot observe.",
    "C09": "program output under forced collection schedules is a whole-process property (interpreter/runtime + conservative stack scanning via setjmp), not encodable; the allocator-level arithmetic it rests on is the subject of the C10 slice.",
    "C02": "observational equivalence across optimisation levels quantifies over whole programs; the separable rewriting kernel (peephole on expression trees, harness/c02_peep.c) was attempted and symbolic execution did not finish in 500 s (format-string-driven tree walkers and linear table searches with symbolic results in foam.c). The folding of builtin calls with constant operands -- the arithmetic content of the optimiser -- is decided under C04.",
    "C14": "layout independence compares the parse trees of two renderings of a program: it needs the scanner, lineariser and the generated parser (axl.z, ~10 kLOC of table-driven code over heap token lists) run symbolically on two related symbolic texts; beyond reach. The lineariser's separator clean-up (linXSep) is decided for memory safety under C07.",
    "C12": "the oracle is execution of generated Java on a JVM against foamj; no symbolic engine for Java (JBMC) in this image and genjava.c has no separable arithmetic kernel.",
    "C13": "session state spread over symbol tables, interpreter globals and the undo log across steps of the whole compiler; the only leaf (scanIsContinued) has no independent specification; its memory safety is covered under C07.",
}

def main():
    checks, na = [], []
    ids = ["C%02d" % i for i in range(1, 21)]
    for pid in ids:
        path = os.path.join(V, "props", pid.lower() + ".py")
        if os.path.exists(path):
            mod = importlib.import_module("props." + pid.lower())
            I = mod.INFO
            checks.append({
                "property_id": pid,
                "quick_cmd": "./check %s --tier quick" % pid,
                "thorough_cmd": "./check %s --tier thorough" % pid,
                "evidence_file": "/verif/evidence/%s.json" % pid,
                "replay_cmd_template": "sh -c 'head -12 {path}'  # the replay file is a self-contained C program; its header gives the gcc build line and expected output",
                "engine": "cbmc-driver",
                "level_claimed": {
                    "category": I.get("level", "model_checking"),
                    "text": I["claim"],
                    "design_ref": "DESIGN.md section 3, " + pid,
                },
                "level_note": "Bounds: " + I["bounds"] + "  Outside the claim: " + I["outside"] + "  Assumptions/stubs: " + "; ".join(I["assumptions"]),
                "technique": I.get("technique", "bounded symbolic execution of the real C units (goto-cc + CBMC 6.11, SAT/SMT back end), counterexamples replayed natively"),
            })
        else:
            na.append({"property_id": pid, "reason": NOT_APPLICABLE.get(pid, "no harness built yet in this tree (see DESIGN.md)")})
    m = {
        "version": 1,
        "setup_cmd": "true",
        "hooks": {
            "guard": "ALDOR_VERIF",
            "enable": "checks pass -DALDOR_VERIF -DALDOR_VERIF_<PARAM>=<value> to goto-cc/gcc for the units that need a shrunk parameter (ALDOR_VERIF_BINT_LG_RADIX bigint digit size, ALDOR_VERIF_TBL_MAXLOAD hash table load factor, ALDOR_VERIF_STO_LG_PGSIZE store page size); the production build never defines it",
            "baseline_off_cmd": "make -C /repo/aldor -k check",
            "source_commits": HOOK_COMMITS,
            "add_only": True,
        },
        "engines": [{"name": "cbmc-driver", "path": "/verif/check", "serves_properties": [c["property_id"] for c in checks],
                     "kind_free_text": "python driver: snapshots /repo's working tree, goto-cc builds the real translation units, CBMC 6.11 (minisat/cadical/kissat/z3/cvc5) decides each harness query, counterexamples are replayed against a gcc+ASan/UBSan build"}],
        "checks": checks,
        "not_applicable": na,
        "notes": "All checks are bounded model checking of the real C code; no property is claimed beyond the bounds listed in level_note and in evidence. known_findings.txt lists genuine defects (known:) and repaired ones (fixed:).",
    }
    json.dump(m, open(os.path.join(V, "MANIFEST.json"), "w"), indent=1)
    print("MANIFEST.json: %d checks, %d not applicable" % (len(checks), len(na)))

HOOK_COMMITS = []
hc = os.path.join(V, "hook_commits.txt")
if os.path.exists(hc):
    HOOK_COMMITS = [l.split()[0] for l in open(hc) if l.strip() and not l.startswith("#")]

if __name__ == "__main__":
    main()
