#!/usr/bin/env python3
"""seedrun.py <seed-root> [ID/mutN ...]: apply each seeded change to /repo, run the property's quick check, undo.
Writes <seed-root>/results.json and per-mutation logs.  Sequential: /repo is shared."""
import glob, json, os, subprocess, sys, time
root = sys.argv[1]
sel = sys.argv[2:]
V = os.path.dirname(os.path.dirname(os.path.abspath(__file__)))
res = {}
dirs = sorted(glob.glob(os.path.join(root, "*", "mut*"))) if not sel else [os.path.join(root, s) for s in sel]
for d in dirs:
    pid = os.path.basename(os.path.dirname(d)).replace("seed_", "")
    name = pid + "/" + os.path.basename(d)
    patch = os.path.join(d, "patch.diff")
    tier = os.environ.get("SEED_TIER", "quick")
    subprocess.run(["git", "-C", "/repo", "checkout", "--", "."], check=True)
    chk = subprocess.run(["git", "-C", "/repo", "apply", "--check", patch], capture_output=True, text=True)
    if chk.returncode != 0:
        res[name] = {"applied": False, "why": chk.stderr[-300:]}
        print(name, "PATCH DOES NOT APPLY", chk.stderr[-200:], flush=True)
        continue
    subprocess.run(["git", "-C", "/repo", "apply", patch], check=True)
    t0 = time.time()
    p = subprocess.run([os.path.join(V, "check"), pid, "--tier", tier], capture_output=True, text=True, cwd=V)
    subprocess.run(["git", "-C", "/repo", "checkout", "--", "."], check=True)
    out = p.stdout + p.stderr
    open(os.path.join(d, "check_%s.log" % tier), "w").write(out)
    viol = [l for l in out.splitlines() if l.startswith("VIOLATION")]
    detail = [l.strip()[:300] for l in out.splitlines() if l.strip().startswith("query=")]
    res[name] = {"applied": True, "exit": p.returncode, "violations": len(viol), "first": detail[:3], "wall_s": round(time.time() - t0, 1),
                 "summary": [l for l in out.splitlines() if " tier=" in l][-1:]}
    print(name, "exit", p.returncode, "violations", len(viol), detail[:1], flush=True)
    json.dump(res, open(os.path.join(root, "results_%s.json" % tier), "w"), indent=1)
subprocess.run(["git", "-C", "/repo", "checkout", "--", "."], check=True)
