#!/usr/bin/env python3
"""Assemble /verif/seeded/<id>/ from the sub-agents' deliveries (/tmp/seed_*), my confirmation runs and the check runs."""
import glob, json, os, re, shutil, sys
V = os.path.dirname(os.path.dirname(os.path.abspath(__file__)))

# name -> (source dir, property, what it breaks, what it needs to manifest)
SEEDS = {
 "C04-foldshiftdn":   ("/tmp/seed_C04/mut1",  "C04", "of_cfold.c: SIntShiftDn folded as a logical shift", "both operands constant, -Q2 or higher, first operand negative"),
 "C04-radix36":       ("/tmp/seed_C04/mut2",  "C04", "foam_c.c:fiArrToSInt rejects radix 36 (radix >= 36)", "an integer literal in radix exactly 36 (36rZZ); all three evaluators agree on the wrong value"),
 "C04-foldisletter":  ("/tmp/seed_C04b/mut1", "C04", "of_cfold.c: CharIsLetter folded with an off-by-one upper bound", "a constant '[' or '{' folded at -Q2"),
 "C04-cgenisodd":     ("/tmp/seed_C04b/mut2", "C04", "genc.c: C emitted for SIntIsOdd is n % 2 == 1 (two cooperating sites)", "compiled code only, run-time operand, negative odd value"),
 "C11-addback":       ("/tmp/seed_C11/mut1",  "C11", "bigint.c:iintDivide add-back step drops the running carry", "divisor >= 2^64 and operands that make the trial quotient digit one too large (probability ~2/radix per digit)"),
 "C11-mod64":         ("/tmp/seed_C11/mut2",  "C11", "bigint.c:bintMod routes 64-bit moduli to the single-word path", "modulus of exactly 64 bits, dividend >= 2^62"),
 "C11-plusalias":     ("/tmp/seed_C11b/mut1", "C11", "bigint.c:bintPlus restores the sign of an aliased operand twice", "x + x with the same stored negative object, |x| >= 2^62; the sum is right, x is left with the wrong sign"),
 "C11-immedbound":    ("/tmp/seed_C11b/mut2", "C11", "bigint.c:xintImmedIfCan demotes -2^62 to an immediate", "a result exactly equal to -2^62 that is then negated or compared"),
 "C15-lnobits":       ("/tmp/seed_C15/mut1",  "C15", "srcpos.c: line field sized from the wrong type (16 bits)", "a diagnostic whose global line number reaches 65535"),
 "C15-sposfile":      ("/tmp/seed_C15/mut2",  "C15", "srcpos.c:sposFile off-by-one on a segment's lower bound", "an error on line 1 of an included file"),
 "C17-lastsection":   ("/tmp/seed_C17/mut1",  "C17", "lib.c:libChkHeader stops the contiguity check one entry early", "a single-byte substitution in the offset of the last section-table entry"),
 "C17-chkmoved":      ("/tmp/seed_C17/mut2",  "C17", "lib.c: libChkHeader call moved from libGetHeader to libRead", "the damaged .ao must be an archive member or be loaded by the interpreter"),
 "C18-rewind":        ("/tmp/seed_C18/mut1",  "C18", "lib.c:libPutHeader uses rewind(), which clears the stream's error indicator", "-Fao and a device that fills part-way through the section writes"),
 "C18-hclose":        ("/tmp/seed_C18/mut2",  "C18", "emit.c:emitTheC closes the shared .h of a split C output with a bare fclose", "-Fc -Csmax=N and the write failure must hit the .h file"),
 "C19-tinysubnormal": ("/tmp/seed_C19/mut1",  "C19", "xfloat.c:xdfFrNative ignores the lowest four fraction bits when classifying", "the 15 smallest subnormal doubles of each sign"),
 "C19-strtof":        ("/tmp/seed_C19/mut2",  "C19", "of_cfold.c: ArrToSFlo folded with strtof instead of (float) atof", "a decimal literal that double-rounds (within half a double ulp of a single-float midpoint)"),
 "C20-tbldrop":       ("/tmp/seed_C20/mut1",  "C20", "table.c:tblDrop stops at the first slot with an equal hash", "two distinct keys with the same full hash, drop of the one that is not first in the chain"),
 "C20-rotatedown":    ("/tmp/seed_C20/mut2",  "C20", "btree.c:btreeRotateDown does not move the last branch of an interior sibling", "tree height >= 3 and a delete that rotates between interior nodes"),
 "C05-reducechunks":  ("/tmp/seed_C05/mut1",  "C05", "foam.c:foamSIntReduce splits a 64-bit integer into 2 chunks instead of 3", "a machine-integer constant >= 2^62 saved to .ao at -Q2 or higher"),
 "C05-arlongname":    ("/tmp/seed_C05/mut2",  "C05", "archive.c:arRdItemArch parses the /K long-name offset from the wrong position", "an .al with two or more members whose names exceed 15 characters"),
 "C07-semicolons":    ("/tmp/seed_C07/mut1",  "C07", "linear.c:linXSep runs off the token list", "a source whose whole token stream is ';' tokens"),
 "C10-mixedsize":     ("/tmp/seed_C10/mut1",  "C10", "store.c:pieceGetMixed sizes a new frontier section with one tag byte instead of one per quantum", "a mixed-size request that opens a new section whose page-rounding slack is smaller than the quantum count (first: 56800..57056 bytes; every size above 1 MB)"),
 "C10-rotatedown":    ("/tmp/seed_C10/mut2",  "C10", "btree.c:btreeRotateDown does not move the last branch of an interior sibling (free-piece index of the allocator)", "more than 512 distinct free mixed sizes at once (three-level tree), then a delete that rotates at the root"),
 "C16-nonascii":      ("/tmp/seed_C16/mut1",  "C16", "genc.c:gc0InitSpecialChars passes bytes >= 0x80 through into C identifiers", "an Aldor name with an escaped non-ASCII byte (x_\\xC3_\\x97y); gcc rejects the generated C"),
 "C16-splitloop":     ("/tmp/seed_C16/mut2",  "C16", "genc.c:gc0ExternDecls split loop subtracts the wrong counter and never terminates", "-Csmax=N with more than N file-level statements"),
 "C07-elseifeof":     ("/tmp/seed_C07/mut2",  "C07", "include.c:inclLine misses the FormerlyActiveIf state at end of file", "EOF without #endif after a taken branch and a later #elseif"),
}


def load_results():
    res = {}
    for root, mp in (("/tmp/seeds", {}), ("/tmp/seeds2", {"C04/mut3": "/tmp/seed_C04b/mut1", "C04/mut4": "/tmp/seed_C04b/mut2",
                                                          "C11/mut3": "/tmp/seed_C11b/mut1", "C11/mut4": "/tmp/seed_C11b/mut2"}),
                     ("/tmp/seeds3", None), ("/tmp/seeds4", None), ("/tmp/seeds5", None), ("/tmp/seeds6", None)):
        for f in sorted(glob.glob(os.path.join(root, "results_*.json"))):
            for k, v in json.load(open(f)).items():
                pid, m = k.split("/")
                if mp is None:                       # final run keyed by seed name
                    res[k] = v
                    continue
                src = mp.get(k, "/tmp/seed_%s/%s" % (pid, m))
                res[src] = v
    return res


def load_verify():
    out = {}
    for f in ("/tmp/seeds_verify/summary.txt", "/tmp/seeds_verify2/summary.txt", "/tmp/seeds_verify3/summary.txt"):
        if os.path.exists(f):
            for ln in open(f):
                m = re.match(r"(\w+)_(mut\d) build=(\d+) demo_clean_exit=(\d+) demo_mut_exit=(\d+) suite_PASS=(\d+) suite_FAIL=(\d+)", ln)
                if m:
                    out["/tmp/seed_%s/%s" % (m.group(1), m.group(2))] = dict(build=int(m.group(3)), demo_clean_exit=int(m.group(4)),
                                                                               demo_with_change_exit=int(m.group(5)), suite_pass=int(m.group(6)), suite_fail=int(m.group(7)))
    return out


def main():
    res, ver = load_results(), load_verify()
    rows = []
    for name, (src, pid, what, needs) in SEEDS.items():
        if not os.path.isdir(src):
            continue
        dst = os.path.join(V, "seeded", name)
        shutil.rmtree(dst, ignore_errors=True)
        os.makedirs(dst)
        for f in os.listdir(src):
            p = os.path.join(src, f)
            if os.path.isfile(p) and os.path.getsize(p) < 300000 and not f.endswith(".log") and not f.startswith("check_"):
                shutil.copy2(p, dst)
        r = res.get("%s/mut_%s" % (pid, name.split("-", 1)[1])) or res.get(src) or {}
        v = ver.get(src, {})
        detected = bool(r.get("violations")) and r.get("exit") == 1
        meta = {
            "property": pid, "breaks": what, "needs_to_manifest": needs,
            "produced_by": "independent sub-agent given only the property text and a scratch worktree (no access to /verif)",
            "confirmed_in_scratch_worktree": v or "not re-confirmed",
            "what_i_ran": ["git -C <scratch> apply patch.diff; make -C <scratch>/aldor -j8; bash demo.sh <scratch> (must fail); make -C <scratch>/aldor -k check (must stay 555 PASS / 0 FAIL); git checkout -- .; bash demo.sh <scratch> (must pass)",
                           "git -C /repo apply patch.diff; ./check %s --tier quick; git -C /repo checkout -- ." % pid],
            "check_result": {"exit": r.get("exit"), "violations_reported": r.get("violations"), "first_report": (r.get("first") or [None])[0],
                             "summary": (r.get("summary") or [None])[0]},
            "detected_by_quick_check": detected,
        }
        json.dump(meta, open(os.path.join(dst, "meta.json"), "w"), indent=1)
        rows.append((name, pid, what, needs, detected, (r.get("first") or [""])[0]))
    with open(os.path.join(V, "seeded", "README.md"), "w") as fh:
        fh.write("# Seeded changes\n\nEach directory holds a change to pippijn/aldor produced by an independent sub-agent that saw only the property text "
                 "(patch.diff, its demonstration, its README) and meta.json: what it breaks, what it needs in order to manifest, what was run, and what the "
                 "registered quick check said when the patch was applied to /repo.  All changes compile and leave the suite at 555 PASS / 0 FAIL.\n\n")
        fh.write("| change | property | breaks | needs | quick check | reporting query |\n|---|---|---|---|---|---|\n")
        for name, pid, what, needs, det, first in rows:
            q = re.search(r"query=(\S+)", first or "")
            fh.write("| %s | %s | %s | %s | %s | %s |\n" % (name, pid, what, needs, "**VIOLATION**" if det else "missed", q.group(1) if q else "-"))
        n = sum(1 for r in rows if r[4])
        fh.write("\nDetected: %d of %d.\n" % (n, len(rows)))
    print("seeded: %d entries, %d detected" % (len(rows), sum(1 for r in rows if r[4])))


if __name__ == "__main__":
    main()
