#!/bin/sh
# mkworktree.sh <dir>: scratch git worktree of /repo at HEAD with /repo's build outputs copied in and the absolute
# paths of the generated build files rewritten, so that `make` / `make check` in <dir>/aldor are incremental and
# use <dir>'s own compiler binary.  Remove with: git -C /repo worktree remove --force <dir>
set -e
d="$1"
if [ ! -d "$d/.git" ] && [ ! -f "$d/.git" ]; then git -C /repo worktree add --detach "$d" HEAD >/dev/null 2>&1; fi
rsync -a /repo/aldor/ "$d/aldor/"
cd "$d/aldor"
grep -rIl "/repo/aldor" . 2>/dev/null | grep -v '\.log$\|\.trs$\|autom4te\|config\.log\|\.[is]$' | while read -r f; do
	touch -r "$f" "$f.mtime.$$"
	sed -i "s#/repo/aldor#$d/aldor#g" "$f"
	touch -r "$f.mtime.$$" "$f"; rm -f "$f.mtime.$$"
done
echo "worktree $d ready"
